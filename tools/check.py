#!/usr/bin/env python3
"""Entry point of every registered check:  python3 tools/check.py <Cnn> [--tier quick|thorough] [--replay file]"""
import sys, os, json, argparse, re
sys.path.insert(0, os.path.dirname(os.path.abspath(__file__)))
import vlib, hashcheck, aescheck, c12check, padcheck, submitcheck, resubmitcheck, mhupdcheck


# ----------------------------------------------------------------------------- hash family

HASH_PROPS = {
    # pid: (monitor prefixes that decide this property, reject %, Lean module, theorems)
    "C06": (("C06-", "C08-"), 8, "IsalVerif.Props.C01Base",
            ["IsalVerif.HashMB.C06_step", "IsalVerif.HashMB.C06_inflight_iff_lane",
             "IsalVerif.HashMB.C06_flush_none_iff", "IsalVerif.HashMB.C06_status",
             "IsalVerif.HashMB.C06_total", "IsalVerif.HashMB.C06_flush_total", "IsalVerif.HashMB.C06_flush_count",
             "IsalVerif.HashMB.C06_drain", "IsalVerif.HashMB.C06_base"]),
    "C11": (("C11-",), 30, "IsalVerif.Props.C11",
            ["IsalVerif.HashMB.C11_reject", "IsalVerif.HashMB.C11_unchanged", "IsalVerif.HashMB.C11_history",
             "IsalVerif.HashMB.C11_nopoison", "IsalVerif.HashMB.C11_reject_code",
             "IsalVerif.HashMB.C11_unfixed_poisons", "IsalVerif.HashMB.C11_base_nopoison",
             "IsalVerif.HashMB.C11_base_reject", "IsalVerif.HashMB.C11_base_unfixed_poisons"]),
    "C01": (("C01-",), 0, "IsalVerif.Props.C01Base",
            ["IsalVerif.HashMB.C01", "IsalVerif.HashMB.C01_reuse", "IsalVerif.HashMB.C01_append",
             "IsalVerif.HashMB.C01_segmentation", "IsalVerif.HashMB.C01_is_standard",
             "IsalVerif.HashMB.C01_params_ok", "IsalVerif.HashMB.C01_base", "IsalVerif.HashMB.baseUpdate_core",
             "IsalVerif.HashMB.baseFinal_blocks", "IsalVerif.HashMB.baseAccepted_rel"]),
}


def check_hash(pid, tier, replay=None):
    prefixes, rej, module, thms = HASH_PROPS[pid]
    chk = vlib.Check(pid, tier)
    failed = vlib.lean_obligations(chk, module, thms, extra_targets=["isal_model"])
    for name, detail in failed:
        chk.violation("Lean obligation no longer checks: %s" % name,
                      {"kind": "obligation", "obligation": name, "detail": detail}, no_input=True)
    if pid == "C11" and not replay:
        # T-route: the bookkeeping prefix of every SIMD-family submit (rejections store the error and nothing else; an
        # accepted submit clears it), regenerated from the source and re-proved for all flags / lengths / context states
        submitcheck.obligations(chk, tier)
    if pid in ("C01", "C06") and not replay:
        # T-route: the body of the resubmit loop of every SIMD-family context file (which decision it takes in which context
        # state: hand back complete / stash tail + submit blocks / pad + submit / hand back idle), regenerated and re-proved
        resubmitcheck.obligations(chk, tier)
    if pid == "C01" and not replay:
        # T-route: hash_pad of every context-layer file, regenerated from the source and re-proved (all totals, all buffers)
        padcheck.obligations(chk, tier)
    drv = vlib.harness_bin("drv_hash", extra_src=vlib.TRAMP_SRC)
    if replay:
        rp = json.load(open(replay))
        a = rp["args"]
        r = hashcheck.run_one(drv, a[0], a[1], int(a[2]), int(a[3]), int(a[4]), int(a[5]), int(a[6]))
        bad = [m for m in r["monitors"] if any(p in m for p in prefixes)] or r["diffs"]
        print("replay: monitors=%s diffs=%d" % (r["monitors"][:3], len(r["diffs"])))
        return 1 if bad else 0
    if tier == "quick":
        nops, maxlen, seeds = 2500, 6000, [chk.seed]
    else:
        nops, maxlen, seeds = 20000, 60000, [chk.seed * 100 + k for k in range(3)]
    fams = hashcheck.FAMILIES + (hashcheck.PUB if pid in ('C11', 'C06') else [])
    results = hashcheck.sweep(chk, drv, nops, maxlen, rej, seeds, families=fams)
    total_ops = 0
    hist = {}
    fam_ops = {}
    for r in results:
        key = "%s/%s" % (r["alg"], r["fam"])
        total_ops += r["ops"]
        fam_ops[key] = fam_ops.get(key, 0) + r["ops"]
        for k, v in r["hist"].items():
            hist[k] = hist.get(k, 0) + v
        mine = [m for m in r["monitors"] if any(p in m for p in prefixes) or m.startswith("CRASH")]
        ok = not mine and not r["diffs"]
        chk.oblige("correspondence+monitor %s seed=%s" % (key, r["args"][2]), ok,
                   "ops=%d diffs=%d monitors=%d" % (r["ops"], len(r["diffs"]), len(mine)))
        if mine:
            kind = mine[0].split()[1] if len(mine[0].split()) > 1 else mine[0]
            rmin = hashcheck.minimize(drv, r, maxlen, kind.split("-")[0] + "-") if not r.get("crash") else r
            chk.violation("%s in %s" % (kind, key),
                          {"kind": "history", "family": key, "args": rmin["args"], "monitor": rmin["monitors"][:3],
                           "note": "drv_hash regenerates the operation history from these args (seed-deterministic)",
                           "minimized": True},
                          match={"family": key, "monitor": kind})
        elif r["diffs"]:
            # correspondence broke without a property monitor failing: targeted search with 10x budget
            found = None
            for s2 in range(3):
                rr = hashcheck.run_one(drv, r["alg"], r["fam"], int(r["args"][2]) * 7 + s2 + 1, nops * 10, maxlen, rej)
                m2 = [m for m in rr["monitors"] if any(p in m for p in prefixes)]
                if m2:
                    found = (rr, m2)
                    break
            if found:
                rr, m2 = found
                kind = m2[0].split()[1]
                rmin = hashcheck.minimize(drv, rr, maxlen, kind.split("-")[0] + "-")
                chk.violation("%s in %s" % (kind, key),
                              {"kind": "history", "family": key, "args": rmin["args"], "monitor": rmin["monitors"][:3],
                               "first_disagreement": r["diffs"][0], "minimized": True},
                              match={"family": key, "monitor": kind})
            else:
                chk.violation("model/implementation correspondence broke for %s" % key,
                              {"kind": "obligation", "obligation": "correspondence stream %s" % key, "args": r["args"],
                               "first_disagreement": r["diffs"][0]}, no_input=True,
                              match={"family": key, "monitor": "correspondence"})
        if r.get("sample") and len(chk.samples) < 8:
            chk.samples.append({"family": key, "ops": r["sample"]})
    if pid in ("C01", "C06") and tier == "thorough":
        # C01: streams crossing 2^29 bytes (the 64-bit bit-length field's upper word) on every family;
        # C06: 2^32 bytes through every manager with idle lanes (flush after every submit): lane bookkeeping that drifts
        # (idle-lane length words, packed lens[] arithmetic) only shows after that much data
        big_res, big_bytes = big_sweep(chk, [0] if pid == "C01" else [1])
        chk.cov["big_streams"] = {"runs": len(big_res), "bytes_hashed_by_implementation": big_bytes}
    chk.cov["correspondence"] = {"calls": total_ops, "families": fam_ops, "input_histogram": hist,
                                 "rejected_submits": sum(r.get("rejected", 0) for r in results)}
    chk.cov["evaluations"] = total_ops
    chk.cov["distinct_nontrivial"] = len([k for k in hist if hist[k] > 0]) * len(fam_ops)
    chk.trusted = ["Lean 4.33.0 kernel; axioms allowed: propext, Classical.choice, Quot.sound",
                   "hand-written model lean/IsalVerif/Impl/HashMB.lean tied by per-call correspondence (harness/drv_hash.c)",
                   "SIMD kernels modelled as 'advance lane by n blocks with compress' (Spec/*.lean), not verified",
                   "OpenSSL libcrypto as independent digest oracle in the harness monitor"]
    chk.assumptions = ["buffers stay readable while a context is in flight (API contract)",
                       "host CPU executes every family (avx512, sha_ni present)"]
    return chk.finish(level="proof",
                      rule="op histories from xorshift PRNG (seeded by VERIF_SEED) per (alg,family): submit/flush with "
                           "length classes 0,<B,=B,kB,<4B,big x flags x lane occupancy; distinct_nontrivial = "
                           "non-empty (op,flags,length-class) cells x families")


AES_PROPS = {
    # pid: (what -> families, monitor prefixes, op kinds that belong to the property, Lean module, theorems)
    "C02": ({"gcm": aescheck.GCM}, ("C02-",), ("GO", "GK"), "IsalVerif.Props.C02", []),
    "C07": ({"gcm": aescheck.GCM}, ("C07-",), ("GI", "GU", "GF", "GK"), "IsalVerif.Props.C07", []),
    "C03": ({"xts": aescheck.XTS}, ("C03-",), ("X",), "IsalVerif.Props.C03", []),
    "C04": ({"cbc": aescheck.CBC, "keyexp": aescheck.KEYEXP}, ("C04-",), ("C", "K"), "IsalVerif.Props.C04", []),
}


def check_aes(pid, tier, replay=None):
    whats, prefixes, kinds, module, thms = AES_PROPS[pid]
    thms = AES_THMS.get(pid, thms)
    chk = vlib.Check(pid, tier)
    for name, detail in vlib.lean_obligations(chk, module, thms, extra_targets=["isal_model"]):
        chk.violation("Lean obligation no longer checks: %s" % name,
                      {"kind": "obligation", "obligation": name, "detail": detail}, no_input=True)
    drv = vlib.harness_bin("drv_aes", extra_src=vlib.TRAMP_SRC)
    if replay:
        rp = json.load(open(replay))
        a = rp["args"]
        r = aescheck.run_one(drv, a[0], a[1], int(a[2]), int(a[3]), int(a[4]), env=rp.get("env") or None)
        bad = [m for m in r["monitors"] if any(p in m for p in prefixes)] or [d for d in r["diffs"] if d["op"].split() and d["op"].split()[0] in kinds]
        print("replay: monitors=%s diffs=%d" % (r["monitors"][:3], len(r["diffs"])))
        return 1 if bad else 0
    if tier == "quick":
        nops, maxlen, seeds = 500, 3000, [chk.seed]
    else:
        nops, maxlen, seeds = 6000, 70000, [chk.seed * 100 + k for k in range(4)]
    jobs = [(w, f, s, nops, maxlen) for w, fams in whats.items() for f in fams for s in seeds]
    results = aescheck.sweep(drv, jobs)
    if pid == "C07":
        # counter-carry sweep: in message k the long update starts after k mod 256 blocks (every residue of the
        # 8-bit counter-overflow shortcut of the kernels), with and without a carried partial block
        rounds = 1 if tier == "quick" else 4
        sj = [("gcm", f, s * 31 + 7, 1400 * rounds, 3000) for f in whats["gcm"] for s in seeds]
        results += aescheck.sweep(drv, sj, env={"VERIF_GCM_SWEEP": "1"})
        # one update of more than 4 GiB after a carried partial block, every family and key size (OpenSSL oracle);
        # the quick tier leaves out the non-temporal twins (same macros, different stores)
        bj = [("gcm", f, chk.seed * 41 + 3, 20, 300) for f in whats["gcm"] if tier != "quick" or not f.endswith("_nt")]
        results += aescheck.sweep(drv, bj, env={"VERIF_GCM_BIG": "1"})
    if pid == "C04":
        # one CBC decrypt call of more than 4 GiB (2^32 + 1..7 blocks) per family and key size, OpenSSL oracle
        bj = [("cbc", f, chk.seed * 43 + 1, 20, 300) for f in whats["cbc"]]
        results += aescheck.sweep(drv, bj, env={"VERIF_CBC_BIG": "1"})
    if not replay:
        # "for any alignment / buffers that end at an unmapped page": the same families once more with every buffer placed
        # against a PROT_NONE page (a read past the input that happens to be harmless elsewhere faults here; seed C03-r4)
        gj = [(w, f, chk.seed * 53 + 9, max(150, nops // 3), maxlen) for w, fams in whats.items() for f in fams]
        for gmode in ("1", "2"):
            for r in aescheck.sweep(drv, gj, env={"VERIF_GUARD": gmode}):
                r["env"] = {"VERIF_GUARD": gmode}
                r["monitors"] = [m.replace("C08-", prefixes[0] + "guard-") if "C08-" in m else m for m in r["monitors"]]
                results.append(r)
    if pid == "C02":
        # one-shot counter-carry sweep: 331 block counts (200..530) so that the 8-bit counter shortcut wraps at every phase
        rounds = 1 if tier == "quick" else 4
        sj = [("gcm", f, s * 37 + 11, 420 * rounds, 9000) for f in whats["gcm"] for s in seeds]
        results += aescheck.sweep(drv, sj, env={"VERIF_GCM_SWEEP": "2"})
    total, hist, fam_ops = 0, {}, {}
    for r in results:
        key = "%s/%s" % (r["what"], r["fam"]) + ("/big-update" if "VERIF_GCM_BIG" in (r.get("env") or {}) else "/big-cbc" if "VERIF_CBC_BIG" in (r.get("env") or {}) else ("/guard%s" % r["env"]["VERIF_GUARD"]) if "VERIF_GUARD" in (r.get("env") or {}) else "/carry-sweep" if r.get("env") else "")
        total += r["ops"]
        fam_ops[key] = fam_ops.get(key, 0) + r["ops"]
        for k, v in r["hist"].items():
            if k.split(":")[0] in kinds:
                hist[k] = hist.get(k, 0) + v
        mine = [m for m in r["monitors"] if any(p in m for p in prefixes) or m.startswith("CRASH")]
        diffs = [d for d in r["diffs"] if d["op"].split() and d["op"].split()[0] in kinds]
        ok = not mine and not diffs
        chk.oblige("correspondence+monitor %s seed=%s" % (key, r["args"][2]), ok, "ops=%d diffs=%d monitors=%d" % (r["ops"], len(diffs), len(mine)))
        if mine or diffs:
            # the op stream is seed-deterministic: shrink the op budget to the first failing op
            lo, hi, best = 1, int(r["args"][3]), r
            while lo < hi and not r.get("crash"):
                mid = (lo + hi) // 2
                rr = aescheck.run_one(drv, r["what"], r["fam"], int(r["args"][2]), mid, int(r["args"][4]), env=r.get("env") or None)
                if "VERIF_GUARD" in (r.get("env") or {}):
                    rr["monitors"] = [m.replace("C08-", prefixes[0] + "guard-") if "C08-" in m else m for m in rr["monitors"]]
                    rr["env"] = r["env"]
                bad = [m for m in rr["monitors"] if any(p in m for p in prefixes)] or [d for d in rr["diffs"] if d["op"].split() and d["op"].split()[0] in kinds]
                if bad:
                    hi, best = mid, rr
                else:
                    lo = mid + 1
            mine2 = [m for m in best["monitors"] if any(p in m for p in prefixes) or m.startswith("CRASH")]
            d2 = [d for d in best["diffs"] if d["op"].split() and d["op"].split()[0] in kinds]
            if mine2:
                what = mine2[0].split()[1] if len(mine2[0].split()) > 1 else mine2[0]
                chk.violation("%s in %s" % (what, key),
                              {"kind": "input", "family": key, "args": best["args"], "env": best.get("env", {}), "monitor": mine2[:3],
                               "failing_op": (d2[0] if d2 else None), "minimized": True},
                              match={"family": key, "monitor": what})
            else:
                # implementation differs from the Lean spec/model on a concrete input: that input is the replay
                chk.violation("output differs from the Lean specification in %s: %s" % (key, d2[0]["op"] if d2 else "?"),
                              {"kind": "input", "family": key, "args": best["args"], "env": best.get("env", {}), "failing_op": d2[0] if d2 else None,
                               "note": "OpenSSL monitor did not flag this op: suspect the model first", "minimized": True},
                              match={"family": key, "monitor": "spec-diff"})
        if r.get("sample") and len(chk.samples) < 8:
            chk.samples.append({"family": key, "ops": r["sample"]})
    chk.cov["correspondence"] = {"calls": total, "families": fam_ops, "input_histogram": hist}
    chk.cov["evaluations"] = total
    chk.cov["distinct_nontrivial"] = len(hist) * len(fam_ops)
    chk.trusted = ["Lean 4.33.0 kernel; axioms allowed: propext, Classical.choice, Quot.sound",
                   "Spec/{Aes,Gf128,Gcm,Xts,Cbc}.lean transcriptions of FIPS-197 / SP 800-38D / IEEE 1619 / SP 800-38A (tested on the published vectors)",
                   "the assembly kernels are compared with the Lean oracle per call (differential), not verified",
                   "OpenSSL libcrypto as a second, independent oracle"]
    chk.assumptions = ["host CPU executes every family (vaes, vpclmulqdq, avx512 present)"]
    return chk.finish(level="proof", rule="seeded op streams per family: key sizes x enc/dec x in-place/disjoint x random "
                      "alignments x length classes (0, <16, 16k, tail, big) x AAD/tag sizes; distinct_nontrivial = "
                      "non-empty (op kind, length class) cells x families")


AES_THMS = {
    "C07": ["IsalVerif.C07.C07", "IsalVerif.C07.C07_lazy", "IsalVerif.C07.C07_lazy_eq_eager", "IsalVerif.C07.C07_key"],
    "C02": ["IsalVerif.C02.C02_roundtrip", "IsalVerif.C02.C02_same_tag", "IsalVerif.C02.C02_tag_sizes", "IsalVerif.C02.C02_lengths"],
    "C03": ["IsalVerif.C03.C03_roundtrip", "IsalVerif.C03.C03_length", "IsalVerif.C03.C03_expanded_enc", "IsalVerif.C03.C03_expanded_dec"],
    "C04": ["IsalVerif.C04.C04_schedule_shape", "IsalVerif.C04.C04_dec_schedule", "IsalVerif.C04.C04_cbc_roundtrip",
            "IsalVerif.C04.C04_cbc_dec_schedule", "IsalVerif.C04.C04_cbc_by_groups"],
}


MH_PROPS = {
    "C05": (["mh_sha1", "mh_sha256"], "IsalVerif.Props.C05",
            ["IsalVerif.C05_sha1", "IsalVerif.C05_sha256", "IsalVerif.C05_cut_independent"]),
    "C10": (["mh_sha1_murmur"], "IsalVerif.Props.C10", ["IsalVerif.C10", "IsalVerif.C10_bytes"]),
}


def check_mh(pid, tier, replay=None):
    import subprocess
    from concurrent.futures import ThreadPoolExecutor
    algs, module, thms = MH_PROPS[pid]
    chk = vlib.Check(pid, tier)
    for name, detail in vlib.lean_obligations(chk, module, thms, extra_targets=["isal_model"]):
        chk.violation("Lean obligation no longer checks: %s" % name, {"kind": "obligation", "obligation": name, "detail": detail}, no_input=True)
    if not replay:
        # T-route: every instance of the mh_sha1 / mh_sha256 update template and of the tail function (the tail is shared with
        # the stitched murmur finalize of C10), regenerated from the source and re-proved
        mhupdcheck.obligations(chk, tier)
    drv = vlib.harness_bin("drv_mh")
    fams = ["base", "sse", "avx", "avx2", "avx512", "pub"]
    if tier == "quick":
        nops, maxlen, seeds = 1200, 5000, [chk.seed]
    else:
        nops, maxlen, seeds = 6000, 100000, [chk.seed * 100 + k for k in range(4)]
    d = vlib.scratch()

    def one(job):
        alg, fam, seed, n = job
        ops = os.path.join(d, "mops_%s_%s_%d_%d" % (alg, fam, seed, n)); res = os.path.join(d, "mres_%s_%s_%d_%d" % (alg, fam, seed, n))
        rr = subprocess.run([drv, alg, fam, str(seed), str(n), str(maxlen), ops, res], capture_output=True, text=True)
        if not os.path.exists(res):
            return {"alg": alg, "fam": fam, "seed": seed, "n": n, "mons": ["CRASH exit=%d" % rr.returncode], "diffs": [], "ops": 0, "hist": {}, "sample": []}
        with open(ops) as fh:
            m = subprocess.run([vlib.MODEL_BIN], stdin=fh, capture_output=True, text=True)
        lines = [l for l in open(res).read().split("\n") if l] + [l for l in (rr.stdout + "\n" + rr.stderr).split("\n") if l.startswith("MONITOR")]
        mons = sorted(set(l for l in lines if l.startswith("MONITOR")))
        il = [l for l in lines if not l.startswith(("MONITOR", "END", "SUMMARY"))]
        ml = [l for l in m.stdout.split("\n") if l]
        ol = open(ops).read().split("\n")
        diffs = [{"line": i + 1, "op": ol[i] if i < len(ol) else "?", "impl": a[:160], "model": bb[:160]}
                 for i, (a, bb) in enumerate(zip(il, ml)) if a != bb][:5]
        if len(il) != len(ml):
            diffs.append({"line": -1, "op": "length", "impl": str(len(il)), "model": str(len(ml))})
        hist = {}
        for l in ol:
            t = l.split()
            if t and t[0] == "U":
                n_ = int(t[1])
                k = "U:" + ("0" if n_ == 0 else "<1024" if n_ < 1024 else "=1024k" if n_ % 1024 == 0 else ">1024")
                hist[k] = hist.get(k, 0) + 1
            elif t:
                hist[t[0]] = hist.get(t[0], 0) + 1
        return {"alg": alg, "fam": fam, "seed": seed, "n": n, "mons": mons, "diffs": diffs, "ops": len(il), "hist": hist,
                "sample": [ol[i] + " -> " + il[i][:70] for i in range(1, min(5, len(il)))]}

    jobs = [(a, f, s, nops) for a in algs for f in fams for s in seeds]
    with ThreadPoolExecutor(max_workers=16) as ex:
        results = list(ex.map(one, jobs))
    total, hist = 0, {}
    for r in results:
        key = "%s/%s" % (r["alg"], r["fam"])
        total += r["ops"]
        for k, v in r["hist"].items():
            hist[k] = hist.get(k, 0) + v
        okc = not r["mons"] and not r["diffs"]
        chk.oblige("correspondence+monitor %s seed=%d" % (key, r["seed"]), okc, "ops=%d diffs=%d monitors=%d" % (r["ops"], len(r["diffs"]), len(r["mons"])))
        if not okc:
            # shrink: the op stream is seed-deterministic
            lo, hi, best = 1, r["n"], r
            while lo < hi:
                mid = (lo + hi) // 2
                rr = one((r["alg"], r["fam"], r["seed"], mid))
                if rr["mons"] or rr["diffs"]:
                    hi, best = mid, rr
                else:
                    lo = mid + 1
            what = (best["mons"][0].split()[1] if best["mons"] and len(best["mons"][0].split()) > 1 else "digest differs from the Lean multi-hash definition")
            chk.violation("%s in %s" % (what, key),
                          {"kind": "history", "family": key, "args": [r["alg"], r["fam"], str(r["seed"]), str(hi), str(maxlen)],
                           "monitor": best["mons"][:2], "failing_op": (best["diffs"] or [None])[0], "minimized": True},
                          match={"family": key, "monitor": what})
        if len(chk.samples) < 5 and r["sample"]:
            chk.samples.append({"family": key, "ops": r["sample"]})
    chk.cov["evaluations"] = total
    chk.cov["distinct_nontrivial"] = len(hist) * len(set((r["alg"], r["fam"]) for r in results))
    chk.cov["correspondence"] = {"calls": total, "input_histogram": hist}
    chk.trusted = ["Lean 4.33.0 kernel; axioms propext, Classical.choice, Quot.sound",
                   "hand-written model lean/IsalVerif/Impl/MhStream.lean (follows mh_*_update_base.c / _finalize_base.c / murmur3_x64_128_internal.c) tied by per-call correspondence",
                   "block functions (mh_*_block_{base,sse,avx,avx2,avx512}) modelled as 16 independent compress chains; Spec/MultiHash.lean, Spec/Murmur3.lean"]
    return chk.finish(level="proof", rule="episodes init/update*/finalize per (alg,family): update lengths clustered at 0,1,1023,1024,1025,2047,2048, "
                      "multiples of 1024 and random, random alignment; context (total, partial length, 16 interim digests, murmur state) "
                      "compared after every update, digest(s) after finalize")


def check_c09(pid, tier, replay=None):
    import subprocess
    from concurrent.futures import ThreadPoolExecutor
    chk = vlib.Check(pid, tier)
    b = vlib.build_repo.get_build("default")
    # T-route: re-extract the constant table from the current source
    r = vlib.run(["python3", os.path.join(vlib.VERIF, "tools", "gen_rolling_table.py"),
                  os.path.join(b, "src", "rolling_hash", "rolling_hash2_table.h"), vlib.LEAN])
    chk.oblige("translator: rolling_hash2_table1[256] extracted from rolling_hash2_table.h", r.returncode == 0, (r.stdout + r.stderr)[-200:])
    thms = ["IsalVerif.Props.C09.C09_run", "IsalVerif.Props.C09.C09_hash", "IsalVerif.Props.C09.C09_boundaries",
            "IsalVerif.Props.C09.C09_split", "IsalVerif.Props.C09.C09_split_progress", "IsalVerif.Props.C09.C09_mask_gen",
            "IsalVerif.Props.C09.F4_old_code_witness"]
    failed = vlib.lean_obligations(chk, "IsalVerif.Props.C09", thms, extra_targets=["IsalVerif.GenProps.RollingTable", "isal_model"])
    ax, _ = vlib.print_axioms("IsalVerif.GenProps.RollingTable", ["IsalVerif.GenProps.rollingTable_pinned"])
    okp = ax.get("IsalVerif.GenProps.rollingTable_pinned") is not None and not failed
    chk.oblige("lean:IsalVerif.GenProps.rollingTable_pinned (table of the current source = pinned table)", okp, str(ax))
    # T-route: the 64-bit arithmetic of the step (scan loops, hash_fn, reset loop) re-translated from rolling_hash2.c
    if not replay:
        import gen_rollstep
        try:
            rrows = gen_rollstep.main([os.path.join(b, "src"), vlib.LEAN])
            rerr = ""
        except Exception as e:
            rrows, rerr = [], str(e)[:300]
        chk.oblige("translator: %d rolling-step programs -> Gen/RollStep.lean" % len(rrows), bool(rrows) and not rerr, rerr)
        rthms = ["IsalVerif.GenProps.RollStep.all_canon", "IsalVerif.GenProps.RollStep.all_present", "IsalVerif.GenProps.RollStep.step_current", "IsalVerif.GenProps.RollStep.scan_current", "IsalVerif.RollC.untilLoop_eq",
                 "IsalVerif.RollC.hashFn_eq", "IsalVerif.RollC.untilLoop_unfold", "IsalVerif.RollC.resetLoop_unfold",
                 "IsalVerif.RollC.canonTest_val"]
        rfailed = vlib.lean_obligations(chk, "IsalVerif.GenProps.RollStep", rthms) if rrows else [("gen_rollstep", rerr)]
        chk.cov["roll_step"] = {"programs": [r[0] for r in rrows], "frames_as_today": [bool(r[1]) for r in rrows], "theorems": rthms}
        for name, detail in rfailed:
            chk.violation("Lean obligation no longer checks: %s" % name,
                          {"kind": "obligation", "obligation": name, "detail": detail,
                           "note": "the rolling-hash step of rolling_hash2.c (scan loops / hash_fn / reset) is no longer the proved one; "
                                   "the implementation is searched by the correspondence sweep of this check"}, no_input=True)
    drv = vlib.harness_bin("drv_rolling", cflags=("-Wl,--wrap=_rolling_hash2_run_until",), libs=())
    if tier == "quick":
        nops, maxlen, seeds = 8000, 600, [chk.seed]
    else:
        nops, maxlen, seeds = 60000, 6000, [chk.seed * 100 + k for k in range(6)]
    d = vlib.scratch()

    def one(job):
        impl, seed = job
        ops = os.path.join(d, "rops_%s_%d" % (impl, seed)); res = os.path.join(d, "rres_%s_%d" % (impl, seed))
        rr = subprocess.run([drv, impl, str(seed), str(nops), str(maxlen), ops, res, "big=1"], capture_output=True, text=True)
        with open(ops) as fh:
            m = subprocess.run([vlib.MODEL_BIN], stdin=fh, capture_output=True, text=True)
        lines = [l for l in open(res).read().split("\n") if l] + [l for l in (rr.stdout + "\n" + rr.stderr).split("\n") if l.startswith(("MONITOR", "SUMMARY"))]
        mons = [l for l in lines if l.startswith("MONITOR")]
        il = [l for l in lines if not l.startswith(("MONITOR", "END", "SUMMARY"))]
        ml = [l for l in m.stdout.split("\n") if l]
        ol = open(ops).read().split("\n")
        diffs = [{"line": i + 1, "op": ol[i] if i < len(ol) else "?", "impl": a[:200], "model": bb[:200]}
                 for i, (a, bb) in enumerate(zip(il, ml)) if a != bb][:5]
        if len(il) != len(ml):
            diffs.append({"line": -1, "op": "length", "impl": str(len(il)), "model": str(len(ml))})
        summ = [l for l in lines if l.startswith("SUMMARY")]
        return {"impl": impl, "seed": seed, "exit": rr.returncode, "mons": mons, "diffs": diffs, "ops": len(il),
                "summary": summ[0] if summ else "", "sample": [ol[i] + " -> " + il[i][:80] for i in range(1, min(5, len(il)))]}

    if not failed and r.returncode != 0:
        failed = [("gen_rolling_table", r.stderr[-300:])]
    for name, detail in failed:
        chk.violation("Lean obligation no longer checks: %s" % name, {"kind": "obligation", "obligation": name, "detail": detail}, no_input=True)
    if not okp and not failed:
        chk.violation("the library's rolling-hash table differs from the pinned table (hash of every window containing a changed byte value differs)",
                      {"kind": "obligation", "obligation": "IsalVerif.GenProps.rollingTable_pinned"}, no_input=True)
    jobs = [(i, s) for i in ("base", "00", "04", "pub") for s in seeds]
    with ThreadPoolExecutor(max_workers=8) as ex:
        results = list(ex.map(one, jobs))
    total = 0
    for r2 in results:
        total += r2["ops"]
        okc = not r2["mons"] and not r2["diffs"] and r2["exit"] in (0,)
        chk.oblige("correspondence+monitor rolling/%s seed=%d" % (r2["impl"], r2["seed"]), okc,
                   "ops=%d diffs=%d monitors=%d %s" % (r2["ops"], len(r2["diffs"]), len(r2["mons"]), r2["summary"][:120]))
        if r2["mons"]:
            mini = [m for m in r2["mons"] if " MINIMAL " in m] or r2["mons"]
            kind = mini[0].split()[1]
            chk.violation("%s in rolling/%s" % (kind, r2["impl"]),
                          {"kind": "input", "family": "rolling/" + r2["impl"], "args": [r2["impl"], str(r2["seed"]), str(nops), str(maxlen)],
                           "monitor": mini[0][:400], "minimized": True},
                          match={"family": "rolling/" + r2["impl"], "monitor": kind})
        elif r2["diffs"] and r2["diffs"][0].get("line", -1) > 0:
            # the model IS the definition (C09_run: first position whose window hash matches, else max_len): an operation on
            # which the implementation's (offset, result, state) differs from it is a failing input, replayed from the seed
            d0 = r2["diffs"][0]
            chk.violation("run result differs from the definition in rolling/%s at op %d (%s)" % (r2["impl"], d0["line"], d0["op"][:60]),
                          {"kind": "input", "family": "rolling/" + r2["impl"], "first_disagreement": d0,
                           "args": [r2["impl"], str(r2["seed"]), str(nops), str(maxlen)],
                           "note": "drv_rolling regenerates the op stream from these args; the line is the first op whose result line differs"},
                          match={"family": "rolling/" + r2["impl"], "monitor": "correspondence"})
        elif r2["diffs"] or r2["exit"] != 0:
            chk.violation("model/implementation correspondence broke for rolling/%s" % r2["impl"],
                          {"kind": "obligation", "obligation": "correspondence rolling/%s" % r2["impl"], "first_disagreement": (r2["diffs"] or [None])[0],
                           "args": [r2["impl"], str(r2["seed"]), str(nops), str(maxlen)]}, no_input=True,
                          match={"family": "rolling/" + r2["impl"], "monitor": "correspondence"})
        if len(chk.samples) < 4:
            chk.samples.append({"impl": r2["impl"], "ops": r2["sample"]})
    chk.cov["evaluations"] = total
    chk.cov["distinct_nontrivial"] = total
    chk.cov["summaries"] = [r2["summary"] for r2 in results][:8]
    chk.trusted = ["Lean 4.33.0 kernel; axioms propext, Classical.choice, Quot.sound",
                   "hand-written model lean/IsalVerif/Impl/RollingRun.lean (follows rolling_hash2.c + the base scan) tied by correspondence; "
                   "the two assembly scans are specified by the same function and checked by the harness (forced through -Wl,--wrap)",
                   "tools/gen_rolling_table.py (textual extraction of the 256-entry table, strict)"]
    return chk.finish(level="proof", rule="seeded init/reset/run/mask_gen op streams: windows 1..48 (weighted to 1,2,3,47,48), max_len clustered "
                      "at 0,1,w-1,w,w+1,2w, masks from mask_gen and sparse masks so that hits are frequent; every run also executed "
                      "with the base scan on a copy of the state")


def check_c12(pid, tier, replay=None):
    import random, subprocess
    chk = vlib.Check(pid, tier)
    info = c12check.gen_dispatch.main(quiet=True)
    chk.oblige("translator: all resolver instructions map to the 14-form mini-ISA (%d entries)" % info["entries"],
               info["unsupported"] == 0 and info["entries"] > 0, "unsupported=%d" % info["unsupported"])
    thms = ["IsalVerif.GenProps.Dispatch.dispatch_exec_ok", "IsalVerif.GenProps.Dispatch.dispatch_family_ok",
            "IsalVerif.GenProps.Dispatch.C12_exec", "IsalVerif.GenProps.Dispatch.C12_family",
            "IsalVerif.Dispatch.C12_check_sound", "IsalVerif.Dispatch.C12_paths_complete", "IsalVerif.Dispatch.C12_stable"]
    ok, out = vlib.lake_build(["IsalVerif.GenProps.Dispatch", "IsalVerif.Props.C12", "isal_dispatch_model"])
    lean_failed = []
    if ok:
        hits = vlib.audit_sources()
        chk.oblige("audit:no sorry/admit/axiom/native_decide/bv_decide/implemented_by/unsafe in lean sources", not hits, "; ".join(hits[:5]))
        ax1, _ = vlib.print_axioms("IsalVerif.GenProps.Dispatch", thms[:4])
        ax2, _ = vlib.print_axioms("IsalVerif.Props.C12", thms[4:])
        ax1.update(ax2)
        for t in thms:
            good = ax1.get(t) is not None and set(ax1[t]) <= vlib.ALLOWED_AXIOMS
            chk.oblige("lean:" + t, good, "axioms=%s" % (ax1.get(t),))
            if not good:
                lean_failed.append(t)
    else:
        for t in thms:
            chk.oblige("lean:" + t, False, "lake build failed")
        lean_failed = ["lake build IsalVerif.GenProps.Dispatch"]
    # translator validation: real resolvers (hook build) under virtual CPUID vs the interpreter on Gen
    drv, addr2sym, ents = c12check.build_dispatch_harness()
    rng = random.Random(chk.seed)
    ncfg = 400 if tier == "quick" else 20000
    cfgs = c12check.gen_configs(rng, ncfg)
    entries_detail = {e["name"]: e for e in info["entries_detail"]}
    failing, groupok, evalout = ([], True, "")
    if not ok or lean_failed:
        # the model half must build for the search: build everything except the failing obligations
        vlib.lake_build(["IsalVerif.Gen.Dispatch", "IsalVerif.Lemmas.DispatchCheckSound", "IsalVerif.Lemmas.DispatchFamily", "isal_dispatch_model"])
        failing, groupok, evalout = c12check.failing_paths()
        for fp in failing:
            e = entries_detail.get(fp["entry"], {})
            cfgs.append(c12check.witness_for(fp["conds"], e.get("aesmin", False)))
    inp = "".join("%d %d %d %d %d\n" % tuple(c) for c in cfgs)
    real = subprocess.run([drv], input=inp, capture_output=True, text=True).stdout.strip().split("\n")
    model = subprocess.run([os.path.join(vlib.LEAN, ".lake", "build", "bin", "isal_dispatch_model")], input=inp,
                           capture_output=True, text=True).stdout.strip().split("\n")
    mismatch, compared = [], 0
    selected = {}
    ud_hits = []
    for ci, (rl, ml) in enumerate(zip(real, model)):
        rd = dict(x.split("=") for x in rl.split())
        md = dict(x.split("=") for x in ml.split())
        rud = set(x for x in rd.pop("#ud", "").split(",") if x)
        mud = set(x for x in md.pop("#ud", "").split(",") if x)
        if rud and len(ud_hits) < 5:
            ud_hits.append({"cfg": cfgs[ci], "entries": sorted(rud)})
        if rud != mud and len(mismatch) < 5:
            mismatch.append({"cfg": cfgs[ci], "entry": sorted(rud ^ mud)[0], "real": ["xgetbv-ud:%s" % sorted(rud)], "model": "xgetbv-ud:%s" % sorted(mud)})
        for e in md:
            compared += 1
            names = addr2sym.get(int(rd.get(e, "0"), 16), ["?"]) if rd.get(e, "?") not in ("?stub",) else ["?stub"]
            selected.setdefault(e, set()).add(md[e])
            if md[e] not in names and len(mismatch) < 5:
                mismatch.append({"cfg": cfgs[ci], "entry": e, "real": names, "model": md[e]})
    chk.oblige("translator validation: real resolvers under virtual CPUID agree with the interpreter on Gen (%d configs x %d entries)" % (len(cfgs), len(ents)),
               not mismatch and len(real) == len(model) == len(cfgs), "compared=%d mismatches=%d" % (compared, len(mismatch)))
    if mismatch:
        chk.violation("translator/model disagrees with the real resolver for %s" % mismatch[0]["entry"],
                      {"kind": "config", "cfg": mismatch[0]["cfg"], "entry": mismatch[0]["entry"], "observed": mismatch[0]["real"],
                       "expected": mismatch[0]["model"]}, no_input=True, match={"entry": mismatch[0]["entry"], "monitor": "translator"})
    chk.oblige("no real resolver executes XGETBV under a configuration with CPUID.1:ECX.OSXSAVE clear", not ud_hits, str(ud_hits[:2]))
    for uh in ud_hits[:3]:
        c = uh["cfg"]
        chk.violation("resolver of %s executes XGETBV although OSXSAVE is clear (#UD)" % uh["entries"][0],
                      {"kind": "config", "entry": uh["entries"][0], "entries": uh["entries"],
                       "cfg": {"l1eax": c[0], "l1ecx": c[1], "l7ebx": c[2], "l7ecx": c[3], "xcr0": c[4]},
                       "note": "hook build, virtual CPUID: the resolver called isal_verif_xgetbv while bit 27 of the virtual CPUID.1:ECX was 0"},
                      match={"entry": uh["entries"][0], "monitor": "xgetbv-ud"})
    # property decision on failing obligations: concrete configuration whose selected target needs an unavailable class
    reported = set()
    for fp in failing:
        e = entries_detail.get(fp["entry"], {})
        cfg = c12check.witness_for(fp["conds"], e.get("aesmin", False))
        line = "%d %d %d %d %d\n" % tuple(cfg)
        rl = subprocess.run([drv], input=line, capture_output=True, text=True).stdout.strip()
        rd = dict(x.split("=") for x in rl.split())
        names = addr2sym.get(int(rd.get(fp["entry"], "0"), 16), ["?"])
        hit = fp["target"] in names
        key = (fp["entry"], fp["target"])
        if key in reported:
            continue
        reported.add(key)
        macro = "F10" if "_ni" in fp["target"] else "F11" if ("vaes" in fp["target"]) else "?"
        chk.violation("%s binds to %s although %s unavailable" % (fp["entry"], fp["target"], fp["missing"].replace("IsalVerif.Dispatch.Isa.", "")),
                      {"kind": "config", "entry": fp["entry"], "cfg": {"l1eax": cfg[0], "l1ecx": cfg[1], "l7ebx": cfg[2], "l7ecx": cfg[3], "xcr0": cfg[4]},
                       "path_conditions": fp["conds"], "target": fp["target"], "missing": fp["missing"],
                       "real_resolver_selected": names, "reproduced_on_real_resolver": hit, "minimized": True},
                      no_input=not hit, match={"entry": fp["entry"], "target": fp["target"], "monitor": macro})
    if lean_failed and not failing and not mismatch:
        chk.violation("Lean obligation no longer checks: %s" % lean_failed[0],
                      {"kind": "obligation", "obligation": lean_failed[0], "detail": out[-1500:] + evalout[-500:]}, no_input=True)
    if not groupok:
        chk.violation("entry points of one shared object do not share a resolver skeleton",
                      {"kind": "obligation", "obligation": "IsalVerif.GenProps.Dispatch.dispatch_family_ok"}, no_input=True)
    chk.cov["evaluations"] = compared
    chk.cov["distinct_nontrivial"] = sum(len(v) for v in selected.values())
    chk.cov["programs"] = info["entries"]
    chk.cov["targets_selected_per_entry"] = {k: sorted(v) for k, v in list(selected.items())[:6]}
    chk.samples = [{"cfg": cfgs[i], "selected": model[i].split()[:3]} for i in range(0, min(len(model), 40), 13)]
    chk.trusted = ["Lean 4.33.0 kernel (decide +kernel on the regenerated programs); axioms propext, Classical.choice, Quot.sound",
                   "translator tools/gen_dispatch.py + tools/disasm.py (objdump/nm front end, ISA class table) - validated against the real resolvers under the ISAL_CRYPTO_VERIF hook",
                   "Dispatch.reqBits / archRules written from the Intel SDM; conventions (AES-NI/PCLMUL with SSE4.1 for AES entries, BMI1/2 with AVX2) are explicit hypotheses"]
    chk.assumptions = ["CPUID leaf 1/7 and XCR0 are the only inputs of the resolvers (checked: any other instruction is 'unsupported')"]
    return chk.finish(level="proof", rule="configs: feature levels x SHA x random dropped/added relevant bits (closed under the "
                      "architectural rules); distinct_nontrivial = distinct (entry, selected target) pairs observed")


def _mode_sweep(chk, tier, env_list, prefixes, want_hash=True, want_aes=True, compare_streams=False):
    """run the hash and AES drivers under the given environment modes; returns (results, total ops)"""
    hdrv = vlib.harness_bin("drv_hash", extra_src=vlib.TRAMP_SRC)
    adrv = vlib.harness_bin("drv_aes", extra_src=vlib.TRAMP_SRC)
    nops_h, maxlen_h = (1500, 3000) if tier == "quick" else (20000, 100000)
    nops_a, maxlen_a = (400, 2500) if tier == "quick" else (5000, 40000)
    seeds = [chk.seed] if tier == "quick" else [chk.seed * 100 + k for k in range(3)]
    out = []
    for env in env_list:
        tag = ",".join("%s=%s" % kv for kv in sorted(env.items())) or "plain"
        if want_hash:
            for r in hashcheck.sweep(chk, hdrv, nops_h, maxlen_h, 5, seeds, env=env, poison=int(env.get("VERIF_POISON", "0"))):
                out.append(("hash", "%s/%s" % (r["alg"], r["fam"]), tag, r))
        if want_aes:
            jobs = [(w, f, sd, nops_a, maxlen_a) for (w, f) in aescheck.ALL for sd in seeds]
            for r in aescheck.sweep(adrv, jobs, env=env):
                out.append(("aes", "%s/%s" % (r["what"], r["fam"]), tag, r))
    return out


def _report_mode_results(chk, results, prefixes, known_monitor_key=None):
    total = 0
    for kind, key, tag, r in results:
        total += r["ops"]
        mine = [m for m in r["monitors"] if any(p in m for p in prefixes) or m.startswith("CRASH")]
        ok = not mine and not r["diffs"]
        chk.oblige("%s %s [%s] seed=%s" % (kind, key, tag, r["args"][2]), ok, "ops=%d diffs=%d monitors=%d" % (r["ops"], len(r["diffs"]), len(mine)))
        if mine:
            seen = set()
            for m in mine:
                t = m.split()
                what = t[1] if len(t) > 1 else m
                detail = " ".join(x for x in t[2:] if x.startswith(("what=", "value=", "op=")))[:120]
                # "value=" may contain spaces inside quotes
                mm = re.search(r'what=(\S+) value="([^"]*)"', m)
                if mm:
                    detail = "what=%s value=%s" % (mm.group(1), mm.group(2))
                k2 = (what, detail)
                if k2 in seen:
                    continue
                seen.add(k2)
                chk.violation("%s %s in %s" % (what, detail, key),
                              {"kind": "input", "family": key, "mode": tag, "args": r["args"], "monitor": m[:300], "minimized": False},
                              match={"family": key, "monitor": what, "detail": detail})
        elif r["diffs"]:
            chk.violation("result differs from the model under mode [%s] in %s" % (tag, key),
                          {"kind": "input", "family": key, "mode": tag, "args": r["args"], "first_disagreement": r["diffs"][0]},
                          match={"family": key, "monitor": "diff"})
        if len(chk.samples) < 6 and r.get("sample"):
            chk.samples.append({"family": key, "mode": tag, "ops": r["sample"][:2]})
    return total


def check_c20(pid, tier, replay=None):
    chk = vlib.Check(pid, tier)
    thms = ["IsalVerif.HashMB.C20_hash", "IsalVerif.HashMB.C20_first_defines"]
    for name, detail in vlib.lean_obligations(chk, "IsalVerif.Props.C20", thms, extra_targets=["isal_model"]):
        chk.violation("Lean obligation no longer checks: %s" % name, {"kind": "obligation", "obligation": name, "detail": detail}, no_input=True)
    if os.path.exists(os.path.join(vlib.LEAN, "IsalVerif", "Props", "C20Gcm.lean")):
        g = ["IsalVerif.C20Gcm.C20_gcm", "IsalVerif.C20Gcm.C20_gcm_noninterference"]
        for name, detail in vlib.lean_obligations(chk, "IsalVerif.Props.C20Gcm", g):
            chk.violation("Lean obligation no longer checks: %s" % name, {"kind": "obligation", "obligation": name, "detail": detail}, no_input=True)
    if not replay:
        # T-route: hash_pad's result is independent of the stale content of the pad buffer (hashpad_current_junk)
        padcheck.obligations(chk, tier)
    envs = [{"VERIF_POISON": "1"}, {"VERIF_POISON": "2"}]
    results = _mode_sweep(chk, tier, envs, ("C20-",))
    total = _report_mode_results(chk, results, ("C20-", "C01-", "C02-", "C03-", "C04-", "C07-"))
    # paired executions: same declared inputs, different poison -> identical result streams
    by = {}
    for kind, key, tag, r in results:
        by.setdefault((kind, key, r["args"][2]), []).append((tag, r))
    pairs = 0
    for (kind, key, sd), lst in by.items():
        if len(lst) == 2:
            pairs += 1
            a, b = lst[0][1].get("impl_lines", []), lst[1][1].get("impl_lines", [])
            same = a == b and len(a) > 0
            chk.oblige("paired executions agree %s %s seed=%s" % (kind, key, sd), same, "lines=%d" % len(a))
            if not same:
                i = next((i for i, (x, y) in enumerate(zip(a, b)) if x != y), -1)
                chk.violation("result depends on poisoned (undeclared) state in %s" % key,
                              {"kind": "input", "family": key, "args": lst[0][1]["args"], "line": i,
                               "run1": a[i][:200] if i >= 0 else "", "run2": b[i][:200] if i >= 0 else ""},
                              match={"family": key, "monitor": "paired"})
    # multi-hash and rolling-hash objects: same declared inputs, different junk in the context / state object before init
    import subprocess
    from concurrent.futures import ThreadPoolExecutor
    mdrv = vlib.harness_bin("drv_mh")
    rdrv = vlib.harness_bin("drv_rolling", cflags=("-Wl,--wrap=_rolling_hash2_run_until",), libs=())
    d = vlib.scratch()
    nm, nr = (600, 4000) if tier == "quick" else (4000, 30000)
    pjobs = [("mh", [mdrv, a, f, str(chk.seed * 7 + 3), str(nm), "5000"], ()) for a in ("mh_sha1", "mh_sha256", "mh_sha1_murmur")
             for f in ("base", "sse", "avx", "avx2", "avx512", "pub")]
    pjobs += [("rh", [rdrv, i, str(chk.seed * 7 + 5), str(nr), "600"], ("big=0",)) for i in ("base", "00", "04", "pub")]

    def prun(job):
        kind, argv, tail = job
        outs = []
        for pz in ("1", "2"):
            ops = os.path.join(d, "p20_%s_%s_%s_o%s" % (kind, argv[1], argv[2], pz))
            res = os.path.join(d, "p20_%s_%s_%s_r%s" % (kind, argv[1], argv[2], pz))
            rr = subprocess.run(argv + [ops, res] + list(tail), capture_output=True, text=True, env=dict(os.environ, VERIF_POISON=pz))
            outs.append((rr.returncode, open(res).read().split("\n") if os.path.exists(res) else []))
        return job, outs
    with ThreadPoolExecutor(max_workers=12) as ex:
        pres = list(ex.map(prun, pjobs))
    for (kind, argv, tail), outs in pres:
        key = "%s/%s%s" % (kind, argv[1], ("/" + argv[2]) if kind == "mh" else "")
        a_, b_ = outs[0][1], outs[1][1]
        same = a_ == b_ and len(a_) > 1 and outs[0][0] == outs[1][0]
        pairs += 1
        total += len(a_)
        chk.oblige("paired executions agree %s (junk in the object before init)" % key, same, "lines=%d exit=%d/%d" % (len(a_), outs[0][0], outs[1][0]))
        if not same:
            i = next((i for i, (x, y) in enumerate(zip(a_, b_)) if x != y), -1)
            chk.violation("result depends on what the %s object held before init in %s" % ("multi-hash context" if kind == "mh" else "rolling-hash state", key),
                          {"kind": "input", "family": key, "argv": argv[1:] + list(tail), "env": "VERIF_POISON=1 vs 2", "line": i,
                           "run1": a_[i][:200] if 0 <= i < len(a_) else "", "run2": b_[i][:200] if 0 <= i < len(b_) else ""},
                          match={"family": key, "monitor": "paired"})
    chk.cov["evaluations"] = total
    chk.cov["distinct_nontrivial"] = pairs
    chk.cov["paired_executions"] = pairs
    chk.trusted = ["Lean 4.33.0 kernel; axioms propext, Classical.choice, Quot.sound",
                   "harness/tramp.asm poisons rax,r10,r11 and the unused argument registers, zmm0-31, k1-k7, arithmetic flags, 64 KiB of dead stack; objects are allocated from differently filled memory",
                   "32-bit arguments are passed zero-extended (as every compiled caller does): recorded assumption"]
    chk.assumptions = ["vector-register inputs of internal kernels are outside the static rule; covered dynamically only",
                       "mh_* and rolling-hash drivers run without the register trampoline (memory poisoning only)"]
    return chk.finish(level="proof", rule="every (alg,family) hash manager and every AES family entry point executed twice on the same "
                      "seeded op stream under two different poison patterns; result streams compared with each other and with the Lean model")


def check_c08(pid, tier, replay=None):
    chk = vlib.Check(pid, tier)
    thms = ["IsalVerif.C08.C08_hash_partial", "IsalVerif.C08.C08_hash_pad64", "IsalVerif.C08.C08_hash_pad128",
            "IsalVerif.C08.C08_job_blocks", "IsalVerif.C08.C08_output_lengths", "IsalVerif.Props.C09.C09_run"]
    for name, detail in vlib.lean_obligations(chk, "IsalVerif.Props.C08", thms, extra_targets=["isal_model"]):
        chk.violation("Lean obligation no longer checks: %s" % name, {"kind": "obligation", "obligation": name, "detail": detail}, no_input=True)
    envs = [{"VERIF_GUARD": "1"}, {"VERIF_GUARD": "2"}]
    results = _mode_sweep(chk, tier, envs, ("C08-",))
    total = _report_mode_results(chk, results, ("C08-",))
    # multi-hash updates and rolling-hash runs with the scanned bytes ending / beginning at an unmapped page (seed C08-r4)
    import subprocess
    from concurrent.futures import ThreadPoolExecutor
    mdrv = vlib.harness_bin("drv_mh")
    rdrv = vlib.harness_bin("drv_rolling", cflags=("-Wl,--wrap=_rolling_hash2_run_until",), libs=())
    d = vlib.scratch()
    nm, nr = (500, 4000) if tier == "quick" else (4000, 40000)
    gjobs = [("mh", [mdrv, a, f, str(chk.seed * 11 + 1), str(nm), "5000"], (), g) for a in ("mh_sha1", "mh_sha256", "mh_sha1_murmur")
             for f in ("base", "sse", "avx", "avx2", "avx512", "pub") for g in ("1", "2")]
    gjobs += [("rh", [rdrv, i, str(chk.seed * 11 + 2), str(nr), "600"], ("big=0",), g) for i in ("base", "00", "04", "pub") for g in ("1", "2")]

    def grun(job):
        kind, argv, tail, g = job
        ops = os.path.join(d, "g08_%s_%s_%s_%s_o" % (kind, argv[1], argv[2], g))
        res = os.path.join(d, "g08_%s_%s_%s_%s_r" % (kind, argv[1], argv[2], g))
        rr = subprocess.run(argv + [ops, res] + list(tail), capture_output=True, text=True, env=dict(os.environ, VERIF_GUARD=g))
        lines = (open(res).read().split("\n") if os.path.exists(res) else []) + (rr.stdout + "\n" + rr.stderr).split("\n")
        return job, rr.returncode, sorted(set(l for l in lines if l.startswith("MONITOR C08-"))), len(lines)
    with ThreadPoolExecutor(max_workers=12) as ex:
        gres = list(ex.map(grun, gjobs))
    for (kind, argv, tail, g), rc, mons, nl in gres:
        key = "%s/%s%s" % (kind, argv[1], ("/" + argv[2]) if kind == "mh" else "")
        ok = not mons and rc in (0,)
        total += nl
        chk.oblige("%s [VERIF_GUARD=%s]" % (key, g), ok, "exit=%d monitors=%d" % (rc, len(mons)))
        if not ok:
            chk.violation("%s in %s" % (mons[0].split()[1] if mons else "fault (exit %d)" % rc, key),
                          {"kind": "input", "family": key, "argv": argv[1:] + list(tail), "env": "VERIF_GUARD=" + g, "monitor": (mons or [""])[0][:300]},
                          match={"family": key, "monitor": "guard"})
    chk.cov["evaluations"] = total
    chk.cov["distinct_nontrivial"] = len(results) + len(gres)
    chk.cov["exhaustive"] = False
    chk.trusted = ["Lean 4.33.0 kernel; axioms propext, Classical.choice, Quot.sound",
                   "harness/guard.h: every data/key/IV/tweak/tag/AAD buffer flush against a PROT_NONE page (end-flush and start-flush), canary slack on the other side; input checksums",
                   "a wide load inside a kernel is only visible to the guard pages, not to the model"]
    chk.assumptions = ["manager/context/key-data objects are not yet guard-placed (alignment contracts): covered by canaries only",
                       "mh_* update buffers and rolling-hash run buffers are guard-placed too (contexts / state objects are not)"]
    return chk.finish(level="proof", rule="seeded op streams per family with every buffer placed against an inaccessible page; "
                      "length classes 0,<16,16k,tail,big incl. CBC len=0; any fault or damaged canary is a violation with the op as replay")


SCRUB_RANK = {"Z": 0, "T": 1, "ZD": 2, "TD": 3, "ZD2": 4, "ZD2X": 5, "FAIL": 9}
C14_THMS = ["IsalVerif.Scrub.checkScrub_sound", "IsalVerif.Props.C14.c14", "IsalVerif.Props.C14.c14_Z",
            "IsalVerif.Props.C14.c14_no_declass", "IsalVerif.Props.C14.c14_tail",
            "IsalVerif.GenProps.Scrub.all_objects", "IsalVerif.GenProps.Scrub.dispatch_ok",
            "IsalVerif.GenProps.Scrub.vtab_summaries", "IsalVerif.GenProps.Scrub.counts"]


def check_c14(pid, tier, replay=None):
    """SAFE_DATA: verified 'scrubbed at every exit' certificate checker (engine Scrub) over every function of the AES
    objects as translated from the current build + dynamic capture (zmm0-31, 64 KiB dead stack) after every AES call"""
    import subprocess, build_repo
    chk = vlib.Check(pid, tier)
    if not replay:
        b = build_repo.get_build("default")
        rep_path = os.path.join(b, "scrub_report.json")
        r = subprocess.run(["python3", os.path.join(vlib.VERIF, "tools", "gen_scrub.py"), "--build", b,
                            "--out", os.path.join(vlib.LEAN, "IsalVerif"), "--report", rep_path], capture_output=True, text=True)
        if r.returncode:
            raise RuntimeError("gen_scrub failed: " + (r.stderr or r.stdout)[-2000:])
        rep = json.load(open(rep_path))
        pf = rep["per_function"]
        expected = json.load(open(os.path.join(vlib.VERIF, "tools", "scrub_expected.json")))
        worse = {}
        for fn, v in pf.items():
            want = expected.get(fn)
            if want is None:
                if v["rule"] == "FAIL":
                    worse[fn] = ("(new function)", v)
            elif SCRUB_RANK.get(v["rule"], 9) > SCRUB_RANK.get(want, 9):
                worse[fn] = (want, v)
        known_imprecise = sorted(fn for fn, v in pf.items() if v["rule"] == "FAIL" and expected.get(fn) == "FAIL")
        chk.oblige("translator: every AES function is accepted under the rule recorded for the unchanged tree (tools/scrub_expected.json) or a stricter one",
                   not worse, "; ".join("%s: %s -> %s (%s)" % (fn, w, v["rule"], (v.get("fail") or "")[:80]) for fn, (w, v) in list(worse.items())[:4]))
        lean_failed = vlib.lean_obligations(chk, "IsalVerif.Props.C14", C14_THMS)
        vf = subprocess.run(["python3", os.path.join(vlib.VERIF, "tools", "vecform.py"), b], capture_output=True, text=True)
        chk.oblige("instruction-table validation (tools/vecform.py): vector/GPR/flag/opmask write sets, zeroing idioms, copies", vf.returncode == 0,
                   vf.stdout.strip()[-300:])
        if vf.returncode != 0:
            lean_failed.append(("vecform", vf.stdout[-1500:]))
        chk.cov["scrub_model"] = {k: rep[k] for k in ("objects", "functions", "instructions", "records", "rules")}
        chk.cov["functions_outside_the_static_proof"] = known_imprecise
    else:
        worse, lean_failed = {}, []
    # dynamic capture: concrete witnesses, and the only cover of the functions the analysis cannot handle
    results = _mode_sweep(chk, tier, [{"VERIF_CAPTURE": "1"}], ("C14-",), want_hash=False)
    nv0 = len(chk.violations) + len(chk.known_hit)
    total = _report_mode_results(chk, results, ("C14-",))
    found = len(chk.violations) + len(chk.known_hit) > nv0
    if replay:
        return 1 if found else 0
    if not found:
        for fn, (want, v) in list(worse.items())[:12]:
            chk.violation("%s is no longer accepted as scrubbed (rule %s -> %s)" % (fn, want, v["rule"]),
                          {"kind": "obligation", "obligation": "checkScrub %s under rule %s" % (fn, want), "detail": v.get("fail"),
                           "object": v.get("object"), "broken_obligations": [f[0] for f in lean_failed]}, no_input=True, match={"fn": fn})
        if not worse:
            for name, detail in lean_failed:
                chk.violation("Lean obligation no longer checks: %s" % name, {"kind": "obligation", "obligation": name, "detail": detail}, no_input=True)
    chk.cov["evaluations"] = total
    chk.cov["distinct_nontrivial"] = len(results)
    chk.trusted = ["Lean 4.33.0 kernel; axioms allowed: propext, Classical.choice, Quot.sound",
                   "translator tools/gen_scrub.py + instruction tables tools/x86tab.py, tools/scrubtab.py (objdump decoding; validated dynamically by insnform.py / vecform.py)",
                   "signature table in tools/scrub_core.py: which argument registers point to key material, and for which entry points aesenclast/pclmulqdq results may be declassified (ciphertext / GHASH of ciphertext)",
                   "taint-instrumented semantics: one taint bit per 128-bit low part and per upper part of each vector register, per GPR/flags/opmask, per stack byte; frame assumption of X86Abs",
                   "6 functions (_aes_gcm_pre_{128,256} and their aliases/wrappers: a local schedule array cleared by a volatile byte loop) are outside the static proof and covered by the dynamic capture only",
                   "harness/tramp.asm + sens.h: capture of zmm0-31, k0-7 and 64 KiB of dead stack right after the return; needles = raw key, both schedules, H and its powers, encrypted tweak"]
    chk.assumptions = ["SAFE_DATA build (default)", "GPRs are not covered by the property (sse/avx XTS return E(k2,tweak)-derived bits in rax: reported, not a violation)"]
    return chk.finish(level="proof", rule="static: every function of the 68 AES objects, every path to every exit (certificates re-checked by decide +kernel); "
                      "dynamic: every AES family entry point over seeded length classes, capture after return")


def big_sweep(chk, modes, replay=None):
    """every family hashes one stream per crossing mode; per-line correspondence with the model + OpenSSL monitor"""
    import subprocess
    from concurrent.futures import ThreadPoolExecutor
    drv = vlib.harness_bin("drv_hash_big")
    if replay:
        rp = json.load(open(replay))
        modes = [int(rp["args"][3])]
    d = vlib.scratch()

    def impl(job):
        alg, fam, mode = job
        ops = os.path.join(d, "bops_%s_%s_%d" % (alg, fam, mode))
        res = os.path.join(d, "bres_%s_%s_%d" % (alg, fam, mode))
        r = subprocess.run([drv, alg, fam, str(chk.seed), str(mode), ops, res], capture_output=True, text=True)
        return (alg, fam, mode, r.returncode, ops, res)

    jobs = [(a, f, m) for (a, f) in hashcheck.FAMILIES for m in modes]
    if replay:
        jobs = [j for j in jobs if "%s/%s" % (j[0], j[1]) == rp["family"]]
    with ThreadPoolExecutor(max_workers=8) as ex:
        impl_res = list(ex.map(impl, jobs))
    # the op script depends on (alg, seed, mode) only -> one model run per (alg, mode)
    def model(key):
        alg, mode = key
        ops = [r for r in impl_res if r[0] == alg and r[2] == mode][0][4]
        with open(ops) as fh:
            m = subprocess.run([vlib.MODEL_BIN], stdin=fh, capture_output=True, text=True)
        return key, [l for l in m.stdout.split("\n") if l]
    keys = sorted(set((r[0], r[2]) for r in impl_res))
    with ThreadPoolExecutor(max_workers=8) as ex:
        models = dict(ex.map(model, keys))
    total_bytes = 0
    for alg, fam, mode, rc, ops, res in impl_res:
        key = "%s/%s" % (alg, fam)
        lines = [l for l in open(res).read().split("\n") if l] if os.path.exists(res) else []
        mons = [l for l in lines if l.startswith("MONITOR")]
        if rc not in (0, 3):
            mons.append("CRASH exit=%d" % rc)
        il = [l for l in lines if not l.startswith("MONITOR") and not l.startswith("END")]
        ml = models[(alg, mode)]
        end = [l for l in lines if l.startswith("END")]
        if end:
            total_bytes += int(end[0].split("total=")[1].split()[0])
        # op lines of all families of one algorithm are identical except the family name
        diffs = [(i, a, b) for i, (a, b) in enumerate(zip(il, ml)) if a != b] + ([(-1, "len", "len")] if len(il) != len(ml) else [])
        ok = not mons and not diffs
        chk.oblige("big-stream correspondence+monitor %s mode=%d" % (key, mode), ok, "lines=%d diffs=%d monitors=%d" % (len(il), len(diffs), len(mons)))
        args = [alg, fam, str(chk.seed), str(mode)]
        if mons:
            chk.violation("%s in %s" % (mons[0].split()[1] if len(mons[0].split()) > 1 else mons[0], key),
                          {"kind": "history", "family": key, "args": args, "ops": open(ops).read().split("\n")[:12], "monitor": mons[:3]},
                          match={"family": key, "monitor": mons[0].split()[1] if len(mons[0].split()) > 1 else "crash"})
        elif diffs:
            chk.violation("model/implementation correspondence broke for %s (big totals)" % key,
                          {"kind": "obligation", "obligation": "big-stream correspondence %s" % key, "args": args,
                           "first_disagreement": {"line": diffs[0][0], "impl": diffs[0][1][:200], "model": diffs[0][2][:200]}},
                          no_input=True, match={"family": key, "monitor": "correspondence"})
        if len(chk.samples) < 4 and il:
            chk.samples.append({"family": key, "mode": mode, "ops": open(ops).read().split("\n")[1:4], "last": il[-1][:100]})
    return impl_res, total_bytes


def check_c15(pid, tier, replay=None):
    """big totals: every family really hashes a stream crossing 2^29 (quick) / 2^32 / 2^32+2^29 (thorough)"""
    import subprocess
    from concurrent.futures import ThreadPoolExecutor
    chk = vlib.Check(pid, tier)
    thms = ["IsalVerif.HashMB.C15", "IsalVerif.HashMB.C15_stream_length", "IsalVerif.HashMB.C15_bitlen",
            "IsalVerif.HashMB.C15_pack_fits", "IsalVerif.HashMB.C15_pack_order", "IsalVerif.HashMB.C01"]
    for name, detail in vlib.lean_obligations(chk, "IsalVerif.Props.C15", thms, extra_targets=["isal_model"]):
        chk.violation("Lean obligation no longer checks: %s" % name,
                      {"kind": "obligation", "obligation": name, "detail": detail}, no_input=True)
    modes = [0] if tier == "quick" else [0, 1, 2]
    if not replay:
        # T-route: hash_pad (where the length field is computed) of every context-layer file, for ALL totals < 2^64
        padcheck.obligations(chk, tier)
        # T-route: `total_length` reset on FIRST and advanced by len modulo 2^64 in every SIMD-family submit
        submitcheck.obligations(chk, tier)
    if replay:
        rp = json.load(open(replay))
        if len(rp.get("args", [])) >= 6:      # a drv_hash history (jumped totals)
            a = rp["args"]
            drv2 = vlib.harness_bin("drv_hash", extra_src=vlib.TRAMP_SRC)
            r = hashcheck.run_one(drv2, a[0], a[1], int(a[2]), int(a[3]), int(a[4]), int(a[5]), int(a[6]) if len(a) > 6 else 0)
            bad = [m for m in r["monitors"] if "C15-" in m or "C01-" in m] or r["diffs"]
            print("replay: monitors=%s diffs=%d" % (r["monitors"][:3], len(r["diffs"])))
            return 1 if bad else 0
    impl_res, total_bytes = big_sweep(chk, modes, replay)
    if not replay:
        # every crossing (2^29, 2^32, 2^32+2^29, 2^35, 2^60) on every family, cheaply: the harness jumps the running total of
        # idle contexts (op `T`), the model does the same; all later paddings / totals must agree line by line
        drv2 = vlib.harness_bin("drv_hash", extra_src=vlib.TRAMP_SRC)
        nops2 = 2500 if tier == "quick" else 20000
        jumps = 0
        for r in hashcheck.sweep(chk, drv2, nops2, 6000, 0, [chk.seed * 13 + 5], families=hashcheck.FAMILIES):
            key = "%s/%s" % (r["alg"], r["fam"])
            mine = [m for m in r["monitors"] if "C15-" in m or "C01-" in m or m.startswith("CRASH")]
            ok = not mine and not r["diffs"]
            jumps += sum(1 for l in r.get("impl_lines", []) if l.startswith("ok tot="))
            chk.oblige("jumped-total correspondence %s" % key, ok, "ops=%d diffs=%d monitors=%d" % (r["ops"], len(r["diffs"]), len(mine)))
            if mine:
                kind = mine[0].split()[1] if len(mine[0].split()) > 1 else mine[0]
                chk.violation("%s in %s" % (kind, key), {"kind": "history", "family": key, "args": r["args"], "monitor": mine[:3],
                                                         },
                              match={"family": key, "monitor": kind})
            elif r["diffs"]:
                chk.violation("length arithmetic differs from the model after a jump of the running total in %s" % key,
                              {"kind": "history", "family": key, "args": r["args"], "first_disagreement": r["diffs"][0],
                               "note": "drv_hash op history (seed-deterministic); op `T c d` adds d bytes (whole blocks) to the running total of "
                                       "idle context c in the implementation and in the model; by theorem C15 the model's padding is the standard one for every total below 2^61",
                               },
                              match={"family": key, "monitor": "jump-correspondence"})
        chk.cov["jumped_totals"] = jumps
    chk.cov["evaluations"] = len(impl_res)
    chk.cov["distinct_nontrivial"] = len(impl_res)
    chk.cov["bytes_hashed_by_implementation"] = total_bytes
    chk.cov["crossings"] = {0: "2^29", 1: "2^32", 2: "2^32+2^29"}
    chk.trusted = ["Lean 4.33.0 kernel; axioms allowed: propext, Classical.choice, Quot.sound",
                   "big segments are evaluated on the model side as `absorb`/`target` of the stream (right-hand side of theorem C01/C15), 4 KiB at a time (absorb_segments)",
                   "OpenSSL libcrypto as independent oracle; SIMD kernels modelled"]
    chk.assumptions = ["4 GiB virtual window aliasing a 2 MiB memfd pattern (mmap MAP_FIXED) is available"]
    return chk.finish(level="proof", rule="one stream per (alg,family,crossing) with random residues around the crossing; "
                      "segments up to 2^32-1 bytes; every submit followed by flush-until-returned; all intermediate "
                      "digests/totals compared with the Lean model and the final digest with OpenSSL")


C17_WRAPS = ("-Wl,--wrap=_aes_self_tests", "-Wl,--wrap=_sha_self_tests", "-Wl,--wrap=_aes_cbc_enc_128",
             "-Wl,--wrap=_sha256_ctx_mgr_submit", "-Wl,--wrap=_sha256_ctx_mgr_flush")
C17_THMS = ["IsalVerif.SelfTest.C17_once", "IsalVerif.SelfTest.C17_no_early_return",
            "IsalVerif.SelfTest.C17_success_means_passed", "IsalVerif.SelfTest.C17_agree",
            "IsalVerif.SelfTest.C17_verdict_stable", "IsalVerif.SelfTest.C17_live", "IsalVerif.SelfTest.C17_live_strong",
            "IsalVerif.SelfTest.C17_final", "IsalVerif.SelfTest.C17_machine", "IsalVerif.SelfTest.C17_machine_live",
            "IsalVerif.SelfTest.C17_D2_hypothesis_necessary"]
C17_GEN = ["sim_ok", "closed_world_ok", "C17_generated_if", "C17_generated_live", "return_table_consistent",
           "return_values_ok", "C17_generated"]


def check_c17(pid, tier, replay=None):
    """FIPS self-test protocol: abstract protocol theorems + instruction-level simulation check of the
    generated programs (T-route: regenerated from the disassembly of the FIPS build on every run) +
    return-value obligation from the C sources + pthread stress correspondence (drv_fips)."""
    import subprocess, gen_selftest
    from concurrent.futures import ThreadPoolExecutor
    chk = vlib.Check(pid, tier)
    gen_selftest.main(["--quiet"])
    ns = open(os.path.join(vlib.LEAN, "IsalVerif", "GenProps", "SelfTest.lean")).read()
    m = re.search(r"^namespace (\S+)", ns, re.M)
    gns = m.group(1) if m else "IsalVerif.GenProps.SelfTest"
    thms = C17_THMS + [gns + "." + t for t in C17_GEN]
    lean_failed = vlib.lean_obligations(chk, "IsalVerif.GenProps.SelfTestRet", thms, extra_targets=["IsalVerif.Props.C17"])
    # the portable gate fips/self_tests_generic.c (C11 atomics; non-x86 targets and arch=noarch builds): second abstract
    # protocol + the same simulation check over gcc's x86-64 code of the `FIPS_MODE=y arch=noarch` build
    import gen_selftest_generic
    gen_selftest_generic.main(["--quiet"])
    g_thms = ["IsalVerif.SelfTestGeneric." + t for t in (
        "C17_generic_once", "C17_generic_no_early_return", "C17_generic_success_means_passed", "C17_generic_agree",
        "C17_generic_verdict_stable", "C17_generic_live", "C17_generic_live_strong", "C17_generic_final",
        "C17_generic_machine", "C17_generic_machine_live", "C17_generic_cfg_hypothesis_necessary",
        "exchange_rejected", "C17_generic_cas_necessary")]
    g_gen = ["IsalVerif.GenProps.SelfTestGeneric." + t for t in (
        "sim_ok", "closed_world_ok", "return_table_consistent", "return_values_ok", "fast_path_ok",
        "C17_generic_generated", "C17_generic_generated_live")]
    lean_failed += vlib.lean_obligations(chk, "IsalVerif.GenProps.SelfTestGeneric", g_thms + g_gen, extra_targets=["IsalVerif.Props.C17Generic"])
    if not replay:
        # "no thread's call returns success or starts cryptographic work before the self tests have finished" is about the
        # entry points: each must reach its work only through `if (isal_self_tests()) return ERR_SELF_TEST` itself, not
        # through a private cache of the verdict (seed C17-r3).  That is C13's generated obligation over the FIPS wrapper
        # table, re-checked here against the same tree.
        wrap_generate()
        gate = ["IsalVerif.GenProps.Wrappers.gate_ok", "IsalVerif.GenProps.Wrappers.shape_fips_ok",
                "IsalVerif.GenProps.Wrappers.opaque_fips_ok", "IsalVerif.Props.C13.approved_tests_first"]
        for name, detail in vlib.lean_obligations(chk, "IsalVerif.GenProps.WrappersC13", gate):
            lean_failed.append(("entry-point gate (wrapper table): " + name, detail))
    drv = vlib.harness_bin("drv_fips", "fips", libs=(), cflags=C17_WRAPS)
    drvg = vlib.harness_bin("drv_fips", "fipsnoarch", libs=(),
                            cflags=("-DVERIF_GENERIC_GATE", "-Wl,--wrap=_aes_self_tests", "-Wl,--wrap=_sha_self_tests",
                                    "-Wl,--wrap=_sha256_ctx_mgr_submit", "-Wl,--wrap=_sha256_ctx_mgr_flush"))
    rounds = 12 if tier == "quick" else 150
    jobs = [(n, mode, rounds, chk.seed, "x86") for n in (1, 2, 8, 64) for mode in ("pass", "aesfail", "shafail")]
    jobs += [(n, mode, rounds, chk.seed, "generic") for n in (1, 2, 8, 64) for mode in ("pass", "aesfail", "shafail")]
    if replay:
        rp = json.load(open(replay))
        a = rp["args"]
        jobs = [(int(a[0]), a[1], int(a[2]), int(a[3]), a[4] if len(a) > 4 else "x86")]

    def run(job):
        n, mode, rnds, sd, gate = job
        r = subprocess.run([drvg if gate == "generic" else drv, str(n), mode, str(rnds), str(sd)], capture_output=True, text=True, timeout=3600)
        lines = [l for l in r.stdout.split("\n") if l]
        return job, r.returncode, [l for l in lines if l.startswith("MONITOR")], [l for l in lines if l.startswith("round=")]

    with ThreadPoolExecutor(max_workers=3) as ex:
        res = list(ex.map(run, jobs))
    found = False
    nround = 0
    hist = {}
    for (n, mode, rnds, sd, gate), rc, mons, rlines in res:
        nround += len(rlines)
        hist["%s/%s/n=%d" % (gate, mode, n)] = len(rlines)
        ok = rc == 0 and not mons and len(rlines) == rnds
        chk.oblige("stress correspondence drv_fips gate=%s n=%d mode=%s rounds=%d" % (gate, n, mode, rnds), ok, "exit=%d monitors=%d" % (rc, len(mons)))
        if not ok:
            found = True
            kind = mons[0].split()[1] if mons else "harness-exit-%d" % rc
            # shrink the number of rounds (rounds are independent processes, seed-deterministic delays)
            chk.violation("%s with %d threads, mode %s (%s gate)" % (kind, n, mode, gate),
                          {"kind": "history", "args": [str(n), mode, str(rnds), str(sd), gate], "monitor": mons[:4],
                           "rounds": rlines[:3], "broken_obligations": [f[0] for f in lean_failed],
                           "note": "drv_fips <threads> <mode> <rounds> <seed>: concurrent first calls into the FIPS build; "
                                   "mode shafail makes the real SHA self test fail with its own failure value"},
                          match={"monitor": kind, "mode": mode})
        if rlines and len(chk.samples) < 6:
            chk.samples.append({"threads": n, "mode": mode, "round": rlines[0][:160]})
    if replay:
        print("replay: %s" % [(r[1], r[2][:2]) for r in res])
        return 1 if found else 0
    for name, detail in lean_failed:
        if found:
            continue       # the concrete failing history above is the replay for the broken obligation
        chk.violation("Lean obligation no longer checks: %s" % name,
                      {"kind": "obligation", "obligation": name, "detail": detail}, no_input=True)
    chk.cov["evaluations"] = nround
    chk.cov["distinct_nontrivial"] = len(hist)
    chk.cov["stress_rounds"] = hist
    chk.trusted = ["Lean 4.33.0 kernel; axioms allowed: propext, Classical.choice, Quot.sound",
                   "translator tools/gen_selftest.py: objdump decoding + relocation arithmetic of asm_self_tests.o / self_tests.o (FIPS build); "
                   "return-value extraction from fips/{aes,sha}_self_tests.c (anything it cannot evaluate becomes 999 and fails the obligation)",
                   "memory model: sequential consistency for the single status word (x86-TSO is coherent per location; lock cmpxchg is a full barrier)",
                   "the self-test functions are opaque (enter/return with a value from the extracted set); rbx preserved across them (C19)"]
    chk.assumptions = ["fair scheduler (every unfinished thread is eventually scheduled) for the liveness clauses",
                       "the portable gate self_tests_generic.c is checked on gcc's x86-64 code of the arch=noarch build plus the source fact 'only seq_cst orders, status declared atomic' (other targets' compilers are outside)"]
    return chk.finish(level="proof", rule="N in {1,2,8,64} threads x {tests pass, AES self test fails, SHA self test fails} x rounds; "
                      "every round a fresh process: barrier-released first calls into random approved entry points, then later calls with and without the fault")


WRAP_PROPS = {
    "C13": dict(module="IsalVerif.GenProps.WrappersC13", prefixes=("C13-", "CORR-FIPS", "CORR-TABLE"),
                variants=[("stub", "fips"), ("real", "fips")],
                thms=["IsalVerif.Props.C13.approved_fail_closed", "IsalVerif.Props.C13.approved_tests_first",
                      "IsalVerif.Props.C13.nonApproved_refused", "IsalVerif.Props.C13.xts_same_key_refused",
                      "IsalVerif.Props.C13.joined_covers",
                      "IsalVerif.GenProps.Wrappers.error_codes_ok", "IsalVerif.GenProps.Wrappers.shape_fips_ok",
                      "IsalVerif.GenProps.Wrappers.opaque_fips_ok", "IsalVerif.GenProps.Wrappers.coverage",
                      "IsalVerif.GenProps.Wrappers.nonapproved_ok", "IsalVerif.GenProps.Wrappers.gate_ok",
                      "IsalVerif.GenProps.Wrappers.xts_ok", "IsalVerif.GenProps.Wrappers.C13_current"],
                report=("failingGate", "failingNonApproved", "failingXts", "shapeMismatchFips", "failingOpaqueFips")),
    "C16": dict(module="IsalVerif.GenProps.WrappersC16", prefixes=("C16-", "CORR-DEFAULT", "CORR-TABLE"),
                variants=[("stub", "default"), ("stub", "fips"), ("real", "default")],
                thms=["IsalVerif.Props.C16.reject", "IsalVerif.Props.C16.accept", "IsalVerif.Props.C16.pointers_tested_before_use",
                      "IsalVerif.Props.C16.ctx_errors_reported", "IsalVerif.Props.C16.legacy_same_call",
                      "IsalVerif.GenProps.Wrappers.error_codes_ok", "IsalVerif.GenProps.Wrappers.shape_default_ok",
                      "IsalVerif.GenProps.Wrappers.opaque_default_ok", "IsalVerif.GenProps.Wrappers.coverage",
                      "IsalVerif.GenProps.Wrappers.guards_ok", "IsalVerif.GenProps.Wrappers.guards_fips_ok",
                      "IsalVerif.GenProps.Wrappers.ctxmap_ok", "IsalVerif.GenProps.Wrappers.ctxmap_fips_ok",
                      "IsalVerif.GenProps.Wrappers.domain_ok", "IsalVerif.GenProps.Wrappers.domain_fips_ok",
                      "IsalVerif.GenProps.Wrappers.legacy_ok", "IsalVerif.GenProps.Wrappers.pairing_ok",
                      "IsalVerif.GenProps.Wrappers.C16_current"],
                report=("failingGuards", "failingGuardsFips", "failingDomain", "failingDomainFips", "failingCtxMap",
                        "failingCtxMapFips", "failingLegacy", "failingPairing", "shapeMismatchDefault", "failingOpaqueDefault")),
}


def wrap_generate():
    """translate the API wrappers of the tree that was built (T-route); returns (default build, fips build, gen dir)"""
    import subprocess, build_repo
    bd, bf = build_repo.get_build("default"), build_repo.get_build("fips")
    gen = os.path.join(bd, "wrapgen")
    r = subprocess.run(["python3", os.path.join(vlib.VERIF, "tools", "gen_wrappers.py"), "--repo", os.path.join(bd, "src"),
                        "--out", vlib.LEAN, "--harness", gen, "--quiet"], capture_output=True, text=True)
    if r.returncode:
        raise RuntimeError("gen_wrappers failed: " + (r.stderr or r.stdout)[-1500:])
    return bd, bf, gen


def wrap_harness(mode, build, bdir, gen):
    """compile harness/drv_api.c in one of its four variants against the given build"""
    import subprocess, hashlib
    h = hashlib.sha256(open(os.path.join(vlib.HARNESS, "drv_api.c"), "rb").read() + open(os.path.join(gen, "gen_api.h"), "rb").read())
    out = os.path.join(bdir, "drv_api_%s_%s.%s" % (mode, build, h.hexdigest()[:12]))
    if os.path.exists(out):
        return out
    cmd = ["gcc", "-O1", "-g", "-Wno-deprecated-declarations", "-Wno-unused-function", "-I", os.path.join(bdir, "src", "include"),
           "-I", gen, "-I", vlib.HARNESS, os.path.join(vlib.HARNESS, "drv_api.c"), "-o", out + ".tmp%d" % os.getpid()]
    if mode == "stub":
        cmd.append("-DWRAP_STUBS")
        cmd += ["-Wl,--wrap=" + l.strip() for l in open(os.path.join(gen, "gen_wrap_syms.txt")) if l.strip()]
        if build == "fips":
            cmd += ["-Wl,--wrap=_aes_self_tests", "-Wl,--wrap=_sha_self_tests"]
    if build == "fips":
        cmd.append("-DFIPS_BUILD")
    cmd.append(os.path.join(bdir, "isa-l_crypto.a"))
    r = subprocess.run(cmd, capture_output=True, text=True)
    if r.returncode:
        raise RuntimeError("drv_api compile failed: " + r.stderr[-2000:])
    os.replace(cmd[cmd.index("-o") + 1], out)
    return out


def check_wrap(pid, tier, replay=None):
    """C13 / C16: translated wrappers + verified checkers (Lean) + enumeration harness"""
    import subprocess
    from concurrent.futures import ThreadPoolExecutor
    W = WRAP_PROPS[pid]
    chk = vlib.Check(pid, tier)
    bd, bf, gen = wrap_generate()
    thms, targets = list(W["thms"]), ["wrap_model"]
    if pid == "C13":
        # the gate `if (isal_self_tests()) return ERR_SELF_TEST` is abstract in the wrapper model; that it returns 0 only
        # after the self tests ran and passed is C17's generated obligation: re-checked here against the same tree
        import gen_selftest
        gen_selftest.main(["--quiet"])
        targets.append("IsalVerif.GenProps.SelfTestRet")
    lean_failed = vlib.lean_obligations(chk, W["module"], thms, extra_targets=targets)
    if pid == "C16" and not replay:
        # the flag / state validation of the hash submits lives in the family callee: T-route over its bookkeeping prefix
        # (a refused submit stores the error code and nothing else), regenerated and re-proved
        submitcheck.obligations(chk, tier)
    if pid == "C13" and not lean_failed:
        gate = ["IsalVerif.GenProps.SelfTest.sim_ok", "IsalVerif.GenProps.SelfTest.closed_world_ok",
                "IsalVerif.GenProps.SelfTest.return_values_ok", "IsalVerif.GenProps.SelfTest.C17_generated"]
        ax, raw = vlib.print_axioms("IsalVerif.GenProps.SelfTestRet", gate)
        for t in gate:
            good = ax.get(t) is not None and set(ax[t]) <= vlib.ALLOWED_AXIOMS
            chk.oblige("lean(gate, C17):" + t, good, "axioms=%s" % (ax.get(t),))
            if not good:
                lean_failed.append((t, "axioms=%s" % (ax.get(t),)))
    model = os.path.join(vlib.LEAN, ".lake", "build", "bin", "wrap_model")
    if not os.path.exists(model):
        ok, out = vlib.lake_build(["wrap_model"])
    witnesses = {}
    if os.path.exists(model):
        rep = subprocess.run([model, "report"], capture_output=True, text=True).stdout
        for l in rep.split("\n"):
            m = re.match(r"^(ok  |FAIL) (\w+) = (.*)$", l)
            if m and m.group(2) in W["report"]:
                chk.oblige("table:%s = []" % m.group(2), m.group(1) != "FAIL", m.group(3)[:300])
                if m.group(1) == "FAIL":
                    witnesses[m.group(2)] = m.group(3)
    unw = [l.strip() for l in open(os.path.join(gen, "gen_unwrapped_syms.txt")) if l.strip()]

    def run(v):
        mode, build = v
        drv = wrap_harness(mode, build, bd if build == "default" else bf, gen)
        args = [drv] + (["--thorough"] if tier == "thorough" and mode == "stub" else [])
        if mode == "stub":
            p1 = subprocess.Popen(args, stdout=subprocess.PIPE)
            p2 = subprocess.run([model, "check"] + unw, stdin=p1.stdout, capture_output=True, text=True)
            p1.wait()
            return v, p1.returncode, p2.stdout
        r = subprocess.run(args, capture_output=True, text=True)
        return v, r.returncode, r.stdout

    with ThreadPoolExecutor(max_workers=3) as ex:
        res = list(ex.map(run, W["variants"]))
    ncalls, found = 0, []
    demoted = set()
    for (mode, build), rc, out in res:
        lines = [l for l in out.split("\n") if l]
        mons = [l for l in lines if l.startswith("MONITOR") and any(l.split()[1].startswith(p) for p in W["prefixes"])]
        summ = [l for l in lines if l.startswith("SUMMARY")]
        n = 0
        for l in summ:
            m = re.search(r"(?:lines|checks)=(\d+)", l)
            if m:
                n += int(m.group(1))
        ncalls += n
        ok = not mons and rc == 0 and bool(summ)
        chk.oblige("enumeration harness drv_api %s/%s" % (mode, build), ok, "exit=%d calls=%d monitors=%d" % (rc, n, len(mons)))
        if rc != 0 or not summ:
            mons = mons or ["MONITOR %s-HARNESS drv_api %s/%s exit=%d without summary" % (pid, mode, build, rc)]
        seen = set()
        # entry points whose body is (now) outside the statement language: the model cannot predict them, so a CORR-* line
        # (real vs. model) for such an entry says the translation is incomplete, not that the property fails; the
        # model-independent C16-*/C13-* monitors (documented domain, gate) still decide those calls
        opaque_entries = set(re.findall(r"\b(?:isal_\w+|[a-z]\w*_(?:init|update|finalize|submit|flush|run|reset|gen)\w*)\b",
                                        " ".join(v for k, v in witnesses.items() if "Opaque" in k)))
        for l in mons:
            t = l.split()
            key = (t[1], t[2] if len(t) > 2 else "")
            if key in seen:
                continue
            seen.add(key)
            if key[0].startswith("CORR-") and not key[0].startswith("CORR-TABLE") and key[1].rstrip(":") in opaque_entries:
                demoted.add(key[1].rstrip(":"))
                continue
            found.append(key)
            chk.violation("%s %s (%s/%s)" % (key[0], key[1], mode, build),
                          {"kind": "input", "variant": [mode, build], "monitor": l[:600], "entry": key[1],
                           "broken_obligations": [f[0] for f in lean_failed], "table_witnesses": witnesses,
                           "note": "drv_api %s mode on the %s build: the line names the entry point, the NULL mask / scalar values / "
                                   "self-test status of the failing call" % (mode, build)},
                          match={"monitor": key[0], "entry": key[1]})
        if summ and len(chk.samples) < 6:
            chk.samples.append({"variant": "%s/%s" % (mode, build), "summary": summ[0][:200]})
    if replay:
        rp = json.load(open(replay))
        hit = [k for k in found if k[0] == rp.get("monitor", "").split()[1] and k[1] == rp.get("entry")] if rp.get("monitor") else found
        print("replay: %s" % (hit[:3],))
        return 1 if hit else 0
    if pid == "C16" and not replay:
        # arguments the wrappers forward unchanged: lengths are 64-bit.  One isal_aes_cbc_dec_* call of more than 4 GiB per key
        # size (a wrapper that narrows the length returns 0 and leaves most of the output unwritten), OpenSSL oracle
        drv_aes = vlib.harness_bin("drv_aes", extra_src=vlib.TRAMP_SRC)
        rb = aescheck.run_one(drv_aes, "cbc", "pub", chk.seed * 43 + 1, 20, 300, env={"VERIF_CBC_BIG": "1"})
        bm = [m for m in rb["monitors"] if "big-cbc" in m or m.startswith("CRASH")]
        chk.oblige("isal_aes_cbc_dec_{128,192,256} on 2^32 + k blocks agree with the oracle", not bm, str(bm[:2]))
        for m in bm[:2]:
            found.append(("C16-LENGTH-NARROWED", "isal_aes_cbc_dec"))
            chk.violation("isal_aes_cbc_dec_* wrong on a length above 2^32: %s" % m[:120],
                          {"kind": "input", "args": rb["args"], "env": {"VERIF_CBC_BIG": "1"}, "monitor": m[:300]},
                          match={"monitor": "C16-LENGTH-NARROWED"})
    if lean_failed and not found:
        for name, detail in lean_failed:
            chk.violation("Lean obligation no longer checks: %s" % name,
                          {"kind": "obligation", "obligation": name, "detail": detail, "table_witnesses": witnesses,
                           "outside_language": sorted(demoted),
                           "note": ("entry points %s are outside the wrapper statement language; the enumeration harness found no call of "
                                    "them that violates the documented domain / the gate" % sorted(demoted)) if demoted else ""}, no_input=True)
    chk.cov["evaluations"] = ncalls
    chk.cov["distinct_nontrivial"] = ncalls
    chk.cov["entry_points"] = json.load(open(os.path.join(gen, "gen_summary.json")))
    chk.trusted = ["Lean 4.33.0 kernel; axioms allowed: propext, Classical.choice, Quot.sound",
                   "translator tools/gen_wrappers.py: clang-14 JSON AST of the 13 wrapper files -> statement language of Impl/Wrapper.lean "
                   "(casts dropped, constants folded; anything else becomes `opaque` and fails opaque_*_ok)",
                   "Spec/ApiDomain.lean: hand-written documented domain of the 72 entry points (cross-checked against the prototypes by shapeMismatch and against the binary by the harness)",
                   "the internal callees are abstract (CalleeOk / reported context error); isal_self_tests is the gate of C17"]
    chk.assumptions = ["SAFE_PARAM build (the default)", "callees honour their own contracts (C01-C12)"]
    return chk.finish(level="proof", rule="stub mode: every entry point x every subset of NULL pointers (others aimed at PROT_NONE pages) x boundary scalars "
                      "[x self-test status x key-prefix length in the FIPS build], each call compared with `run` of the translated wrapper and the documented domain; "
                      "real mode: legacy/isal_ pairs on random valid inputs, failed-self-test refusals with memory compare, XTS same-key refusals")


def abi_generate(variant):
    """T-route of C19/C18: regenerate the abstract instruction records + certificates from the objects of the
    library built from the current tree; returns (build dir, report dict, stdout)"""
    import subprocess, build_repo
    b = build_repo.get_build(variant)
    rep = os.path.join(b, "x86abs_report.json")
    r = subprocess.run(["python3", os.path.join(vlib.VERIF, "tools", "gen_x86abs.py"), "--variant", variant, "--build", b,
                        "--out", os.path.join(vlib.LEAN, "IsalVerif"), "--report", rep], capture_output=True, text=True)
    if r.returncode:
        raise RuntimeError("gen_x86abs failed: " + (r.stderr or r.stdout)[-2000:])
    return b, json.load(open(rep)), r.stdout


def abi_harness(b):
    import subprocess, hashlib
    srcs = [os.path.join(vlib.HARNESS, x) for x in ("drv_abi.c", "abi_tramp.asm")]
    h = hashlib.sha256(b"".join(open(x, "rb").read() for x in srcs)).hexdigest()[:12]
    exe = os.path.join(b, "drv_abi." + h)
    if not os.path.exists(exe):
        obj = exe + ".tramp.o"
        r = subprocess.run(["nasm", "-f", "elf64", srcs[1], "-o", obj], capture_output=True, text=True)
        r2 = subprocess.run(["gcc", "-O1", "-g", "-I", os.path.join(b, "src", "include"), "-I", os.path.join(b, "src"), "-o", exe + ".tmp",
                             srcs[0], obj, os.path.join(b, "isa-l_crypto.a")], capture_output=True, text=True)
        if r.returncode or r2.returncode:
            raise RuntimeError("drv_abi build failed: " + r.stderr[-500:] + r2.stderr[-1500:])
        os.replace(exe + ".tmp", exe)
    return exe


ABI_THMS = ["IsalVerif.X86Abs.checkFn_sound", "IsalVerif.X86Abs.checkFn_static", "IsalVerif.X86Abs.checkFn_noForbidden",
            "IsalVerif.Props.C19.c19", "IsalVerif.Props.C19.c19_summary", "IsalVerif.Props.C19.checked",
            "IsalVerif.GenProps.X86.all_objects", "IsalVerif.GenProps.X86.tab_masks", "IsalVerif.GenProps.X86.class_masks"]
C18_THMS = ["IsalVerif.Props.C18.c18_static_stores", "IsalVerif.GenProps.X86Statics.statics_ok",
            "IsalVerif.GenProps.X86Statics.written_ok", "IsalVerif.GenProps.X86Statics.counts"]


def check_c19(pid, tier, replay=None):
    """callee-saved state: verified certificate checker over the translated disassembly of every function"""
    import subprocess
    chk = vlib.Check(pid, tier)
    variants = ["default"] if tier == "quick" else ["default", "fips"]
    reps = {}
    for v in variants:
        b, rep, out = abi_generate(v)
        reps[v] = (b, rep)
        chk.oblige("translator+python twin: every function of the %s build has a certificate" % v, not rep["fail"],
                   "functions=%d records=%d fail=%s" % (rep["functions"], rep["records"], list(rep["fail"].items())[:3]))
    thms = list(ABI_THMS)
    targets = []
    if "fips" in variants:
        thms += ["IsalVerif.GenProps.X86Fips.all_objects", "IsalVerif.GenProps.X86Fips.class_masks"]
        targets = ["IsalVerif.GenProps.X86Fips.All"]
    modsrc = "IsalVerif.Props.C19"
    lean_failed = vlib.lean_obligations(chk, modsrc, thms if "fips" not in variants else ABI_THMS, extra_targets=targets)
    if "fips" in variants and not lean_failed:
        ax, raw = vlib.print_axioms("IsalVerif.GenProps.X86Fips.All", thms[len(ABI_THMS):])
        for t in thms[len(ABI_THMS):]:
            good = ax.get(t) is not None and set(ax[t]) <= vlib.ALLOWED_AXIOMS
            chk.oblige("lean:" + t, good, "axioms=%s" % (ax.get(t),))
            if not good:
                lean_failed.append((t, "axioms=%s" % (ax.get(t),)))
    # which functions fail (python twin of the kernel check names them)
    failing = {}
    for v, (b, rep) in reps.items():
        for fn, why in rep["fail"].items():
            failing[fn] = why
    b, rep = reps["default"]
    exe = abi_harness(b)
    r = subprocess.run([exe, str(chk.seed)], capture_output=True, text=True, timeout=3600)
    lines = [l for l in r.stdout.split("\n") if l]
    mons = [l for l in lines if l.startswith("MONITOR")]
    tot = [l for l in lines if l.startswith("C19 total")]
    m = re.search(r"calls=(\d+) distinct_entry_points=(\d+) violations=(\d+) selftest=(\w+)", tot[0]) if tot else None
    ok = r.returncode == 0 and not mons and m and m.group(4) == "ok"
    chk.oblige("trampoline harness drv_abi: rsp/rbx/rbp/r12-r15/DF/MXCSR/x87CW/red zone above frame identical after every call", ok,
               tot[0] if tot else "exit=%d" % r.returncode)
    found = False
    seen = set()
    for l in mons:
        t = l.split()
        key = (t[1], t[2] if len(t) > 2 else "")
        if key in seen:
            continue
        seen.add(key)
        found = True
        chk.violation("%s %s" % key, {"kind": "input", "monitor": l[:500], "args": [str(chk.seed)],
                                      "static_diagnostic": failing.get(key[1].replace("fn=", ""), None),
                                      "broken_obligations": [f[0] for f in lean_failed]},
                      match={"monitor": key[0], "fn": key[1]})
    if not ok and not mons:
        found = True
        chk.violation("drv_abi harness failed (exit=%d)" % r.returncode, {"kind": "obligation", "obligation": "drv_abi", "detail": r.stdout[-500:] + r.stderr[-500:]}, no_input=True)
    if replay:
        print("replay: %s" % mons[:3])
        return 1 if found else 0
    if (lean_failed or failing) and not found:
        if failing:
            for fn, why in list(failing.items())[:10]:
                chk.violation("certificate check fails for %s: %s" % (fn, why),
                              {"kind": "obligation", "obligation": "checkFn %s" % fn, "detail": why,
                               "broken_obligations": [f[0] for f in lean_failed]}, no_input=True, match={"fn": fn})
        else:
            for name, detail in lean_failed:
                chk.violation("Lean obligation no longer checks: %s" % name, {"kind": "obligation", "obligation": name, "detail": detail}, no_input=True)
    # translator table validation (trusted base shrink): undeclared register writes of every instruction form in use
    ins = subprocess.run(["python3", os.path.join(vlib.VERIF, "tools", "insnform.py"), b], capture_output=True, text=True)
    chk.oblige("instruction table validation (tools/insnform.py): no form writes a register its table entry does not declare",
               ins.returncode == 0, ins.stdout.strip()[-300:])
    if ins.returncode != 0:
        chk.violation("instruction table tools/x86tab.py disagrees with the CPU", {"kind": "obligation", "obligation": "insnform", "detail": ins.stdout[-1500:]}, no_input=True)
    chk.cov["evaluations"] = int(m.group(1)) if m else 0
    chk.cov["distinct_nontrivial"] = int(m.group(2)) if m else 0
    chk.cov["model"] = {v: {k: rp[k] for k in ("functions", "instructions", "records", "labels", "objects")} for v, (bb, rp) in reps.items()}
    chk.cov["private_convention_kernels"] = rep["private"]
    chk.trusted = ["Lean 4.33.0 kernel; axioms allowed: propext, Classical.choice, Quot.sound",
                   "translator tools/gen_x86abs.py + instruction table tools/x86tab.py (objdump decoding; unknown mnemonic/operand => `unsupported`, "
                   "anything touching DF/MXCSR/x87 CW/MMX => `forbidden`, both rejected by the checker); table validated dynamically by tools/insnform.py",
                   "A-frame: stores through addresses that are not stack-derived+constant do not hit tracked save slots (28 functions use [rsp+reg+k] into local arrays)",
                   "externals memcpy/__memcpy_chk/memcmp/memmove/strlen/__stack_chk_fail obey the SysV ABI; stack arithmetic does not wrap",
                   "private-convention class (16 internal kernels, computed summaries checked in the kernel; callers checked against them) chosen by the translator from visibility/address-taken/callers"]
    chk.assumptions = ["DF clear on entry (ABI)", "x86-64 SysV"]
    return chk.finish(level="proof", rule="static: every function of every object, every path (certificates = abstract states at jump targets, re-checked by decide +kernel); "
                      "dynamic: trampoline calls of 390 entry points x length classes comparing callee-saved registers, DF, MXCSR, x87 CW and a canary above the frame")


def check_c18(pid, tier, replay=None):
    """no hidden shared state: static clause proved over the translated objects (X86Abs tables), binding clause proved
    over the regenerated resolvers (BindRace), concurrency clause by threaded correspondence (drv_threads)"""
    import subprocess, gen_dispatch, build_repo
    chk = vlib.Check(pid, tier)
    b, rep, out = abi_generate("default")
    gen_dispatch.main(quiet=True)
    chk.oblige("translator: every function of the default build has a certificate (static stores are found by the same pass)", not rep["fail"], str(list(rep["fail"].items())[:3]))
    lean_failed = vlib.lean_obligations(chk, "IsalVerif.Props.C18", C18_THMS + ["IsalVerif.Props.C19.checked"], extra_targets=["IsalVerif.Props.C18Bind"])
    if not lean_failed:
        ax, raw = vlib.print_axioms("IsalVerif.Props.C18Bind", ["IsalVerif.Props.C18.c18_bind_race", "IsalVerif.Props.C18.c18_bind_progress",
                                                               "IsalVerif.Props.C18.c18_stub_shape", "IsalVerif.BindRace.reach_inv"])
        for t, a in ax.items():
            good = a is not None and set(a) <= vlib.ALLOWED_AXIOMS
            chk.oblige("lean:" + t, good, "axioms=%s" % (a,))
            if not good:
                lean_failed.append((t, "axioms=%s" % (a,)))
    # the address of a writable static datum taken into a register (writes through such a pointer are outside the static clause):
    lea_syms = sorted({x[-1] if isinstance(x[-1], str) else str(x) for x in rep.get("static_lea", [])})
    chk.cov["writable_symbols_whose_address_is_taken"] = len(lea_syms)
    # harness: link with a map so that every writable input section of every library object can be snapshotted
    import hashlib
    src = os.path.join(vlib.HARNESS, "drv_threads.c")
    exe = os.path.join(b, "drv_threads." + hashlib.sha256(open(src, "rb").read()).hexdigest()[:12])
    mapf = exe + ".map"
    if not os.path.exists(exe) or not os.path.exists(mapf):
        r = subprocess.run(["gcc", "-O1", "-g", "-pthread", "-no-pie", "-Wno-deprecated-declarations", "-I", os.path.join(b, "src", "include"),
                            src, os.path.join(b, "isa-l_crypto.a"), "-Wl,-Map=" + mapf, "-o", exe + ".tmp"], capture_output=True, text=True)
        if r.returncode:
            raise RuntimeError("drv_threads build failed: " + r.stderr[-1500:])
        os.replace(exe + ".tmp", exe)
    regions = []
    txt = open(mapf).read().replace("\n                ", " ")
    for m in re.finditer(r"^ (\.(?:data|bss|tbss|tdata)[\w.]*)\s+0x([0-9a-f]+)\s+0x([0-9a-f]+)\s+\S*isa-l_crypto\.a\((\w+\.o)\)", txt, re.M):
        if int(m.group(3), 16):
            regions.append((int(m.group(2), 16), int(m.group(3), 16), "%s:%s" % (m.group(4), m.group(1))))
    nm = subprocess.run(["nm", exe], capture_output=True, text=True).stdout
    cells = [(int(l.split()[0], 16), 8, l.split()[2]) for l in nm.split("\n") if len(l.split()) == 3 and l.split()[2].endswith("_dispatched")]
    sf = os.path.join(vlib.scratch(), "statics.txt")
    with open(sf, "w") as fh:
        for a, sz, n in regions + cells:
            fh.write("%x %d %s\n" % (a, sz, n))
    chk.oblige("link map: writable input sections of library objects found", len(regions) > 50 and len(cells) >= 60, "regions=%d cells=%d" % (len(regions), len(cells)))
    nthreads = [2, 8, 32] if tier == "quick" else [2, 3, 8, 16, 32, 64]
    rounds = 12 if tier == "quick" else 120
    refs, nrun, found, bindings, straddle = {}, 0, False, {}, 0

    def ref(seed, k):
        if (seed, k) not in refs:
            o = subprocess.run([exe, "ref", str(seed), str(k)], capture_output=True, text=True).stdout
            refs[(seed, k)] = o.split()[2] if o.startswith("DIGEST") else "?"
        return refs[(seed, k)]
    if replay:
        rp = json.load(open(replay))
        nthreads, rounds = [int(rp["args"][0])], 1
        seeds_override = int(rp["args"][1])
    for n in nthreads:
        for rd in range(rounds):
            seed = (seeds_override if replay else chk.seed * 1000 + rd)
            r = subprocess.run([exe, "race", str(n), str(seed), sf], capture_output=True, text=True, timeout=600)
            nrun += 1
            lines = r.stdout.split("\n")
            digs = {int(l.split()[1]): l.split()[2] for l in lines if l.startswith("DIGEST")}
            mons = [l for l in lines if l.startswith("MONITOR")]
            wrong = [k for k in range(n) if digs.get(k) != ref(seed, k)]
            for l in lines:
                if l.startswith("CELL"):
                    bindings.setdefault(l.split()[1], set()).add(l.split()[2])
                if l.startswith("STATICS"):
                    straddle = max(straddle, int(re.search(r"straddling_a_cache_line=(\d+)", l).group(1)))
            if r.returncode not in (0, 1) or len(digs) != n:
                mons.append("MONITOR C18-harness-crash exit=%d" % r.returncode)
            if wrong:
                mons.append("MONITOR C18-result-differs-from-solo-run threads=%s" % wrong[:6])
            if mons and not found:
                found = True
                chk.violation("%s with %d threads" % (mons[0].split()[1], n),
                              {"kind": "history", "args": [str(n), str(seed)], "monitor": mons[:4],
                               "note": "drv_threads race <threads> <seed> <statics>: thread k runs workload (seed,k) as its first use of the library; "
                                       "digests must equal `drv_threads ref <seed> <k>`", "broken_obligations": [f[0] for f in lean_failed]},
                              match={"monitor": mons[0].split()[1]})
    multi = {c: v for c, v in bindings.items() if len(v) > 1}
    chk.oblige("threaded correspondence: every thread's results equal its solo run; no static datum but dispatch cells changed", not found, "runs=%d" % nrun)
    chk.oblige("every dispatch cell was bound to one and the same target in all runs", not multi, str(list(multi.items())[:2]))
    if multi and not found:
        found = True
        chk.violation("dispatch cell bound to different targets in different runs", {"kind": "history", "args": [str(nthreads[-1]), str(chk.seed)], "cells": {k: sorted(v) for k, v in multi.items()}}, match={"monitor": "C18-binding-differs"})
    if replay:
        return 1 if found else 0
    if lean_failed and not found:
        for name, detail in lean_failed:
            chk.violation("Lean obligation no longer checks: %s" % name, {"kind": "obligation", "obligation": name, "detail": detail,
                                                                          "static_stores": rep.get("static_stores", [])[-3:]}, no_input=True)
    chk.cov["evaluations"] = nrun
    chk.cov["distinct_nontrivial"] = len(bindings)
    chk.cov["dispatch_cells_bound_during_runs"] = len(bindings)
    chk.cov["writable_regions_snapshotted"] = len(regions)
    chk.cov["cells_straddling_a_cache_line_in_this_link"] = straddle
    chk.trusted = ["Lean 4.33.0 kernel; axioms allowed: propext, Classical.choice, Quot.sound",
                   "translators tools/gen_x86abs.py (static stores, writable symbols) and tools/gen_dispatch.py (resolvers, stub shape)",
                   "atomicity of the aligned 8-byte load/store of a dispatch cell (the cells are only 4-byte aligned by their section; no cell of the harness link straddles a cache line: checked each run)",
                   "writes through a pointer to static data are outside the static clause (addresses of writable-section symbols are taken only for constant tables; list in the X86Abs report) and are covered dynamically by the section snapshots",
                   "non-interference on distinct objects is established by correspondence (threaded runs against solo runs), the models being pure functions of the objects they are given"]
    chk.assumptions = ["distinct objects per thread (API contract)", "x86-64 memory model"]
    return chk.finish(level="proof", rule="threads in {2,8,32} (thorough: up to 64) x rounds, every round a fresh process in which all first calls race; per thread one workload over all "
                      "public families on its own objects, digest compared with a solo run of the same workload; all writable input sections of library objects snapshotted before/after")


CHECKS = {"C18": check_c18, "C19": check_c19, "C13": check_wrap, "C16": check_wrap, "C17": check_c17, "C01": check_hash, "C06": check_hash, "C11": check_hash, "C15": check_c15, "C12": check_c12, "C09": check_c09, "C20": check_c20, "C08": check_c08, "C14": check_c14, "C05": check_mh, "C10": check_mh,
          "C02": check_aes, "C03": check_aes, "C04": check_aes, "C07": check_aes}


def main():
    ap = argparse.ArgumentParser()
    ap.add_argument("pid")
    ap.add_argument("--tier", default=os.environ.get("VERIF_TIER", "quick"))
    ap.add_argument("--replay")
    a = ap.parse_args()
    if a.pid not in CHECKS:
        print("unknown property", a.pid)
        return 2
    if a.replay:
        os.environ["VERIF_REPLAYING"] = "1"     # keep the replay files of earlier runs (the one being replayed among them)
    try:
        if a.replay and json.load(open(a.replay)).get("kind") == "hashpad":
            return padcheck.replay(json.load(open(a.replay)))
        if a.replay and json.load(open(a.replay)).get("kind") == "submit-prefix":
            return submitcheck.replay(json.load(open(a.replay)))
        return CHECKS[a.pid](a.pid, a.tier, a.replay)
    except Exception as e:
        # A step of the machinery itself failed (a variant of the library no longer builds, a translator cannot read the
        # code any more, a harness no longer links, ...).  On the unchanged tree this does not happen; on a changed tree the
        # property is then no longer shown to hold: report it as such, naming the step, rather than exiting silently.
        import traceback
        tb = traceback.format_exc()
        sys.stderr.write(tb)
        print("CHECK-ERROR property=%s %s" % (a.pid, str(e)[:300]))
        if a.replay:
            return 2
        try:
            chk = vlib.Check(a.pid, a.tier)
            chk.oblige("machinery: %s" % type(e).__name__, False, str(e)[:300])
            chk.violation("the check could not be carried out: %s" % (str(e).split("\n")[0][:120]),
                          {"kind": "obligation", "obligation": "machinery step of tools/check.py %s" % a.pid,
                           "detail": str(e)[:3000], "traceback": tb[-3000:]}, no_input=True, match={"monitor": "machinery"})
            return chk.finish(level="proof", rule="(check aborted)")
        except Exception:
            return 2


if __name__ == "__main__":
    sys.exit(main())
