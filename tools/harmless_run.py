#!/usr/bin/env python3
"""Development tool (not a registered check): run checks against a behaviour-preserving patch to measure false alarms.
   harmless_run.py <name> <patch.diff> <notes.md> <checks,comma>    (applies to /repo, runs, reverts, stores seeded/harmless/<name>/)"""
import json, os, shutil, subprocess, sys, time
V = os.path.dirname(os.path.dirname(os.path.abspath(__file__)))


def sh(cmd, cwd=None):
    r = subprocess.run(cmd, shell=True, cwd=cwd, capture_output=True, text=True)
    return r.returncode, r.stdout + r.stderr


def main():
    name, patch, notes, checks = sys.argv[1], sys.argv[2], sys.argv[3], sys.argv[4].split(",")
    if sh("git -C /repo status --porcelain --untracked-files=no")[1].strip():
        print("/repo dirty"); return 2
    if sh("git status --porcelain --untracked-files=no lean tools/scrub_expected.json", cwd=V)[1].strip():
        print("uncommitted changes under lean/ (the restore after the run would destroy them): commit first"); return 2
    rc, out = sh("git -C /repo apply %s" % patch)
    if rc:
        print("apply failed", out); return 2
    res = {}
    try:
        for c in checks:
            t0 = time.time()
            rc, out = sh("python3 tools/check.py %s --tier quick" % c, cwd=V)
            vio = [l for l in out.split("\n") if l.startswith(("VIOLATION", "CHECK-ERROR"))]
            res[c] = {"exit": rc, "lines": [v[:260] for v in vio[:5]], "n": len(vio), "wall_s": round(time.time() - t0, 1)}
            print("  %s %s: exit=%d alarms=%d %s" % (name, c, rc, len(vio), vio[0][:160] if vio else ""))
    finally:
        sh("git -C /repo checkout -- .")
        sh("git checkout -- evidence lean/IsalVerif/Gen lean/IsalVerif/GenProps tools/scrub_expected.json 2>/dev/null; git clean -fdq evidence/replays", cwd=V)
    dst = os.path.join(V, "seeded", "harmless", name)
    os.makedirs(dst, exist_ok=True)
    shutil.copy(patch, os.path.join(dst, "patch.diff"))
    if os.path.exists(notes):
        shutil.copy(notes, os.path.join(dst, "README.md"))
    json.dump({"name": name, "checks": res, "files": [l[6:] for l in open(patch) if l.startswith("+++ b/")],
               "alarms": [c for c, r in res.items() if r["exit"] != 0],
               "alarms_with_input": [c for c, r in res.items() if any("no-failing-input-found" not in l for l in r["lines"])]},
              open(os.path.join(dst, "meta.json"), "w"), indent=1)
    return 0


if __name__ == "__main__":
    sys.exit(main())
