#!/usr/bin/env python3
"""Build the *current working tree* of /repo out of tree.

get_build(variant) -> directory holding `isa-l_crypto.a`, `objs/` (extracted objects) and `src/`
(a copy of the tracked+modified sources used for the build, kept for the translators).

Variants: "default" (SAFE_DATA+SAFE_PARAM), "fips" (FIPS_MODE=y), "hook" (D=ISAL_CRYPTO_VERIF),
"fipshook" (both), "fipsnoarch" (FIPS_MODE=y arch=noarch: portable C only; C17 generic gate).

Builds are cached under a scratch cache directory outside /repo and /verif, keyed by the sha256 of
the source tree contents + variant, so a cache hit is bit-for-bit what a rebuild would produce and
"rebuild from the current working tree" is kept.  At most KEEP trees are kept.
"""
import hashlib, os, shutil, subprocess, sys, fcntl, time, tempfile

REPO = os.environ.get("VERIF_REPO", "/repo")
CACHE = os.environ.get("VERIF_CACHE", "/var/tmp/isalverif-cache")
KEEP = 4  # trees (each with up to 4 variants) kept in the cache

SRC_EXT = (".c", ".h", ".asm", ".inc", ".am", ".unx", ".def", ".in", ".ac")
TOP_FILES = ("Makefile.unx", "make.inc", "Makefile.am", "isa-l_crypto.def", "Makefile.nmake")


def source_files():
    """tracked files + untracked non-ignored source files, as relative paths"""
    out = subprocess.run(["git", "-C", REPO, "ls-files", "-z", "--cached", "--others", "--exclude-standard"],
                         check=True, capture_output=True).stdout.decode().split("\0")
    res = []
    for f in out:
        if not f:
            continue
        p = os.path.join(REPO, f)
        if not os.path.isfile(p):
            continue  # deleted in the working tree
        if f.endswith((".o", ".lo", ".a", ".la", ".so", ".log", ".trs", ".status")) or "/." in "/" + f:
            continue
        if f.startswith(("autom4te.cache/", "build-aux/", ".libs/")):
            continue
        try:
            with open(p, "rb") as fh:
                if fh.read(4) in (b"\x7fELF", b"!<ar"):
                    continue  # untracked test binaries of the in-tree autotools build
        except OSError:
            continue
        res.append(f)
    res.sort()
    return res


def tree_hash(files=None):
    files = files if files is not None else source_files()
    h = hashlib.sha256()
    for f in files:
        h.update(f.encode() + b"\0")
        with open(os.path.join(REPO, f), "rb") as fh:
            h.update(hashlib.sha256(fh.read()).digest())
    return h.hexdigest()[:24]


VARIANTS = {
    "default": [],
    "fips": ["FIPS_MODE=y"],
    "hook": ["D=ISAL_CRYPTO_VERIF"],
    "fipshook": ["FIPS_MODE=y", "D=ISAL_CRYPTO_VERIF"],
    # portable C only (no assembly, no AES): the configuration that compiles fips/self_tests_generic.c
    "fipsnoarch": ["FIPS_MODE=y", "arch=noarch"],
}


def _prune():
    try:
        ents = [os.path.join(CACHE, d) for d in os.listdir(CACHE) if not d.endswith(".lock")]
    except FileNotFoundError:
        return
    ents = [e for e in ents if os.path.isdir(e)]
    ents.sort(key=lambda p: os.path.getmtime(p), reverse=True)
    for e in ents[KEEP:]:
        shutil.rmtree(e, ignore_errors=True)


def get_build(variant="default", quiet=True):
    files = source_files()
    th = tree_hash(files)
    os.makedirs(CACHE, exist_ok=True)
    tdir = os.path.join(CACHE, th)
    vdir = os.path.join(tdir, variant)
    lock = open(os.path.join(CACHE, th + "." + variant + ".lock"), "w")
    fcntl.flock(lock, fcntl.LOCK_EX)
    try:
        if os.path.exists(os.path.join(vdir, "OK")):
            os.utime(tdir, None)
            return vdir
        if os.path.exists(vdir):
            shutil.rmtree(vdir)
        os.makedirs(vdir)
        src = os.path.join(vdir, "src")
        os.makedirs(src)
        for f in files:
            d = os.path.join(src, f)
            os.makedirs(os.path.dirname(d), exist_ok=True)
            shutil.copy2(os.path.join(REPO, f), d)
        t0 = time.time()
        cmd = ["make", "-f", "Makefile.unx", "-j16"] + VARIANTS[variant] + ["lib"]
        r = subprocess.run(cmd, cwd=src, capture_output=True, text=True)
        if r.returncode != 0:
            sys.stderr.write(r.stdout[-3000:] + r.stderr[-3000:])
            raise RuntimeError("build of /repo working tree failed (variant %s)" % variant)
        shutil.copy2(os.path.join(src, "bin", "isa-l_crypto.a"), os.path.join(vdir, "isa-l_crypto.a"))
        objs = os.path.join(vdir, "objs")
        os.makedirs(objs)
        subprocess.run(["ar", "x", os.path.join(vdir, "isa-l_crypto.a")], cwd=objs, check=True)
        # drop the build output inside src/, keep only sources
        shutil.rmtree(os.path.join(src, "bin"), ignore_errors=True)
        with open(os.path.join(vdir, "OK"), "w") as fh:
            fh.write("%s %s %.1fs\n" % (th, variant, time.time() - t0))
        if not quiet:
            sys.stderr.write("built %s/%s in %.1fs\n" % (th, variant, time.time() - t0))
        _prune()
        return vdir
    finally:
        fcntl.flock(lock, fcntl.LOCK_UN)
        lock.close()


if __name__ == "__main__":
    v = sys.argv[1] if len(sys.argv) > 1 else "default"
    print(get_build(v, quiet=False))
