"""resubmit-loop T-route (tools/gen_resubmit.py -> Gen/Resubmit.lean -> GenProps/Resubmit.lean).  When the per-run obligation
fails, Lean's `findWitness` searches a grid of context states for one on which the translated loop body takes another
decision than `iterSpec`; the violation carries that state (model-level witness), the dynamic sweeps of the calling check
(C01, C06) search the implementation.  Used by C01 and C06."""
import os, re, sys
sys.path.insert(0, os.path.dirname(os.path.abspath(__file__)))
import vlib, gen_resubmit, gen_topup, gen_flush

THMS = ["IsalVerif.GenProps.Resubmit.all_canon", "IsalVerif.GenProps.Resubmit.all_count",
        "IsalVerif.GenProps.Resubmit.resubmit_current", "IsalVerif.GenProps.Resubmit.paramsOf_is_standard",
        "IsalVerif.ResubmitC.canon_iter", "IsalVerif.ResubmitC.iter_refines", "IsalVerif.ResubmitC.resubmit_eq_iterModel"]


THMS_TOP = ["IsalVerif.GenProps.TopUp.all_canon", "IsalVerif.GenProps.TopUp.all_count", "IsalVerif.GenProps.TopUp.topup_current",
            "IsalVerif.TopUpC.canon_topup", "IsalVerif.TopUpC.topup_refines", "IsalVerif.TopUpC.submitTail_eq_topModel"]


def topup_obligations(chk):
    """the block of submit that tops up the partial buffer (tools/gen_topup.py -> Gen/TopUp.lean -> GenProps/TopUp.lean)"""
    b = vlib.build_repo.get_build("default")
    try:
        rows = gen_topup.main([os.path.join(b, "src"), vlib.LEAN])
        gen_err = ""
    except Exception as e:
        rows, gen_err = [], str(e)[:300]
    chk.oblige("translator: top-up block of %d context-layer files -> Gen/TopUp.lean" % len(rows), bool(rows) and not gen_err, gen_err)
    failed = vlib.lean_obligations(chk, "IsalVerif.GenProps.TopUp", THMS_TOP) if rows else [("gen_topup", gen_err)]
    chk.cov["topup_block"] = {"functions": len(rows), "theorems": THMS_TOP}
    if failed:
        src = ("import IsalVerif.Gen.TopUp\nopen IsalVerif.TopUpC\n"
               "def bz : String → Nat\n  | \"sha512\" => 128\n  | _ => 64\n"
               "#eval (IsalVerif.Gen.TopUp.all.filter fun x => !decide (x.prog = canon (bz x.alg))).map (·.file)\n")
        path = os.path.join(vlib.scratch(), "topup_diff.lean")
        open(path, "w").write(src)
        vlib.lake_build(["IsalVerif.Gen.TopUp"])
        r = vlib.run(["lake", "env", "lean", path], cwd=vlib.LEAN)
        files = re.findall(r'"([^"]+\.c)"', r.stdout)
        for f in files or ["?"]:
            chk.violation("top-up block of the submit function in %s no longer the proved one" % f,
                          {"kind": "topup-block", "file": f, "broken_obligations": [x[0] for x in failed],
                           "note": "the translated block differs from TopUpC.canon; the implementation is searched by the correspondence "
                                   "sweeps of this check"}, no_input=True, match={"file": f, "monitor": "topup-block"})
    return not failed


THMS_FLUSH = ["IsalVerif.GenProps.Flush.all_canon", "IsalVerif.GenProps.Flush.all_count", "IsalVerif.GenProps.Flush.flush_current",
              "IsalVerif.FlushC.canon_run", "IsalVerif.FlushC.ctxFlush_unfold"]


def flush_obligations(chk):
    b = vlib.build_repo.get_build("default")
    try:
        rows = gen_flush.main([os.path.join(b, "src"), vlib.LEAN])
        gen_err = ""
    except Exception as e:
        rows, gen_err = [], str(e)[:300]
    chk.oblige("translator: loop body of %d context-layer flush functions -> Gen/Flush.lean" % len(rows), bool(rows) and not gen_err, gen_err)
    failed = vlib.lean_obligations(chk, "IsalVerif.GenProps.Flush", THMS_FLUSH) if rows else [("gen_flush", gen_err)]
    chk.cov["ctx_flush"] = {"functions": len(rows), "theorems": THMS_FLUSH}
    bad = [(rel, fn) for rel, fn, prog in rows if prog != [".mgrFlush", ".retNullIfNull", ".resubmit", ".retIfCtx"]]
    for rel, fn in (bad if failed else []):
        chk.violation("flush loop of %s no longer the proved one" % fn,
                      {"kind": "ctx-flush", "file": rel, "fn": fn, "broken_obligations": [x[0] for x in failed],
                       "note": "the implementation is searched by the correspondence sweeps of this check"},
                      no_input=True, match={"file": rel, "monitor": "ctx-flush"})
    if failed and not bad:
        for name, detail in failed:
            chk.violation("Lean obligation no longer checks: %s" % name, {"kind": "obligation", "obligation": name, "detail": detail}, no_input=True)
    return not failed


def lean_witnesses():
    src = ("import IsalVerif.Gen.Resubmit\nimport IsalVerif.Lemmas.ResubmitCProofs\nopen IsalVerif.ResubmitC\n"
           "def pz : String → (Nat × Nat × Bool)\n  | \"sha512\" => (128, 7, false)\n  | \"sm3\" => (64, 6, true)\n  | _ => (64, 6, false)\n"
           "#eval (IsalVerif.Gen.Resubmit.all.map fun x => (x.file, findWitness (pz x.alg).1 (pz x.alg).2.2 x.prog, "
           "decide (x.prog = canon (pz x.alg).1 (pz x.alg).2.1 (pz x.alg).2.2)))\n")
    path = os.path.join(vlib.scratch(), "resubmit_witness.lean")
    open(path, "w").write(src)
    vlib.lake_build(["IsalVerif.Gen.Resubmit", "IsalVerif.Lemmas.ResubmitCProofs"])
    r = vlib.run(["lake", "env", "lean", path], cwd=vlib.LEAN)
    out = []
    flat = re.sub(r"\s+", " ", r.stdout)
    for m in re.finditer(r'\("([^"]+)", (none|some \(([\d, ]+)\)), (true|false)\)', flat):
        if m.group(4) != "true":
            out.append((m.group(1), tuple(int(x) for x in m.group(3).split(",")) if m.group(3) else None))
    return out, r.stdout[-300:] + r.stderr[-300:]


def obligations(chk, tier):
    b = vlib.build_repo.get_build("default")
    src = os.path.join(b, "src")
    try:
        rows = gen_resubmit.main([src, vlib.LEAN])
        gen_err = ""
    except Exception as e:
        rows, gen_err = [], str(e)[:300]
    chk.oblige("translator: resubmit loop body of %d context-layer files -> Gen/Resubmit.lean" % len(rows), bool(rows) and not gen_err, gen_err)
    failed = vlib.lean_obligations(chk, "IsalVerif.GenProps.Resubmit", THMS) if rows else [("gen_resubmit", gen_err)]
    chk.cov["resubmit_loop"] = {"functions": len(rows), "theorems": THMS}
    top_ok = topup_obligations(chk)
    top_ok = flush_obligations(chk) and top_ok
    if not failed:
        return top_ok
    wit, raw = lean_witnesses()
    for f, w in wit:
        chk.violation("resubmit loop body of %s no longer the proved one%s" % (f, (": status=%d partial=%d incoming=%d (hash_pad returns %d)" % w) if w else ""),
                      {"kind": "resubmit-loop", "file": f, "model_witness": list(w) if w else None,
                       "broken_obligations": [x[0] for x in failed],
                       "note": "model_witness = (ctx->status, partial_block_buffer_length, incoming_buffer_length, n_extra_blocks) on which the "
                               "translated loop body takes another decision than ResubmitC.iterSpec; this is a state of the regenerated model, "
                               "the implementation is searched by the correspondence sweeps of this check"},
                      no_input=True, match={"file": f, "monitor": "resubmit-loop"})
    if not wit:
        for name, detail in failed:
            chk.violation("Lean obligation no longer checks: %s" % name, {"kind": "obligation", "obligation": name, "detail": detail, "search": raw},
                          no_input=True)
    return False
