#!/usr/bin/env python3
"""Instruction-form validation of tools/scrubtab.py (engine Scrub, C14).

    vecform.py <build dir> [--samples K]

For every distinct (mnemonic, operand shape) among the CFG-reachable, non-control-flow instructions of the AES
objects, K sampled instances (raw bytes from the object files) are executed in isolation by harness/vecform.c on
random register files (16 GPRs, status flags, zmm0-31, k0-7).  Validated: the declared vector / GPR / flags / opmask
WRITE sets, the zeroing idioms, the register copies, and the declared READ sets (declared outputs must not change
when every undeclared input changes).  Skipped: stack-pointer forms (push/pop/leave/sub rsp...), cpuid/xgetbv,
stores to rip-relative locations, 32-bit address-size forms.
"""
import os, sys, subprocess, collections

HERE = os.path.dirname(os.path.abspath(__file__))
ROOT = os.path.dirname(HERE)
sys.path.insert(0, HERE)
import x86abs_core as X
import scrub_core as S
import x86tab, scrubtab
from x86tab import Op, splitops, RSP


NEGATIVE = "--negative" in sys.argv


def spec(ins):
    ef = x86tab.effect(ins)
    if ef.kind in ("unsupported", "forbidden", "storestatic", "leave", "push", "pushany", "pop", "addrsp", "andrsp"):
        return None
    gh = scrubtab.ghost(ins)
    if gh is None:
        return None
    if NEGATIVE:
        # deliberately wrong declarations: every one of them must be reported
        if ins.mnem == "aesenc":
            gh.vr = 0                          # destination not declared as a source
        if ins.mnem == "pxor" and gh.vz:
            gh.vz |= gh.vz << 32               # legacy zeroing idiom claimed to clear the upper bits too
        if ins.mnem == "adc":
            gh.gr &= ~(1 << scrubtab.FL)       # carry flag not declared as a source
        if ins.mnem == "vpshufb" and gh.vz:
            gh.vz = 0                          # VEX.128 write claimed to leave the upper bits alone
        if ins.mnem == "cmp":
            gh.gw = 0                          # flags write not declared
    if ins.mnem in ("cpuid", "xgetbv"):
        return None
    if (gh.gw >> RSP) & 1:
        return None
    ops = [Op(o) for o in splitops(ins.ops)]
    if any(o.kind == "?" for o in ops if not o.text.startswith("k")) or any(o.addr32 for o in ops):
        return None
    bmask = imask = 0
    for o in ops:
        if o.kind == "m":
            if o.seg in ("fs", "gs"):
                return None
            if o.base is not None:
                bmask |= 1 << o.base
            if o.index is not None and o.index >= 0:
                imask |= 1 << o.index
            if o.vecidx:
                return None
            if o.rip and gh.stw:
                return None
    if ins.mnem == "lea":
        bmask = imask = 0
    cp = 0
    if gh.cp is not None:
        cd, cs, lo, hi = gh.cp
        cp = cd | cs << 8 | (1 if lo else 0) << 16 | (1 if hi else 0) << 17 | 1 << 18
    shape = (ins.mnem, tuple((o.kind, o.width, o.size, (o.base is not None, o.index is not None, o.rip) if o.kind == "m" else (),
                              ("{" in o.text, "{z}" in o.text)) for o in ops), tuple(ins.prefix))
    line = "%s %x %x %x %x %x %x %x %x %s" % (ins.raw.hex(), gh.vz, gh.vw, gh.vr, cp, gh.gw, gh.gr, bmask & ~(1 << RSP), imask & ~(1 << RSP),
                                           (" ".join(ins.prefix + [ins.mnem]) + " " + ins.ops).strip())
    return shape, line


def main():
    build = sys.argv[1]
    K = 3
    if "--samples" in sys.argv:
        K = int(sys.argv[sys.argv.index("--samples") + 1])
    sub = os.path.join(build, "scrub_aes")
    if not os.path.isdir(os.path.join(sub, "objs")):
        S.load(build)
    L = X.load_archive(sub)
    groups = collections.OrderedDict()
    seen = set()
    skipped = collections.Counter()
    for f in L.funcs:
        for a in sorted(f.insns):
            if f.edges.get(a, ("bad",))[0] != "fall" or (f.key[0], a) in seen:
                continue
            seen.add((f.key[0], a))
            s = spec(f.insns[a])
            if s is None:
                skipped[f.insns[a].mnem] += 1
                continue
            g = groups.setdefault(s[0], [])
            if len(g) < K and s[1] not in g:
                g.append(s[1])
    lines = [l for g in groups.values() for l in g]
    exe = os.path.join(build, "vecform")
    obj = os.path.join(build, "vformtramp.o")
    r = subprocess.run(["nasm", "-f", "elf64", os.path.join(ROOT, "harness", "vformtramp.asm"), "-o", obj], capture_output=True, text=True)
    r2 = subprocess.run(["gcc", "-O1", "-g", "-o", exe, os.path.join(ROOT, "harness", "vecform.c"), obj], capture_output=True, text=True)
    if r.returncode or r2.returncode:
        print("vecform build failed", r.stderr, r2.stderr[-2000:])
        return 2
    if "--dump" in sys.argv:
        print("\n".join(lines))
    p = subprocess.run([exe], input="\n".join(lines) + "\n", capture_output=True, text=True)
    out = p.stdout.strip().split("\n")
    for l in out:
        if l.startswith("MONITOR") or l.startswith("C14"):
            print(l)
    notes = [l for l in out if l.startswith("NOTE")]
    print("vecform: %d shapes, %d sampled instructions, %d faulting samples (not validated); skipped forms: %s"
          % (len(groups), len(lines), len(notes), dict(skipped)))
    for l in notes[:10]:
        print("  ", l)
    return p.returncode


if __name__ == "__main__":
    sys.exit(main())
