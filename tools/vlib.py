"""Shared plumbing for the property checks: repo build, harness build, Lean build + audit,
evidence, violations, known findings."""
import hashlib, json, os, re, shutil, subprocess, sys, time, tempfile, atexit

VERIF = os.path.dirname(os.path.dirname(os.path.abspath(__file__)))
LEAN = os.path.join(VERIF, "lean")
HARNESS = os.path.join(VERIF, "harness")
EVID = os.path.join(VERIF, "evidence")
REPLAYS = os.path.join(EVID, "replays")
sys.path.insert(0, os.path.join(VERIF, "tools"))
import build_repo  # noqa: E402

ALLOWED_AXIOMS = {"propext", "Classical.choice", "Quot.sound"}
MODEL_BIN = os.path.join(LEAN, ".lake", "build", "bin", "isal_model")

_scratch = None


def scratch():
    """per-run scratch directory outside /repo and /verif, removed at exit"""
    global _scratch
    if _scratch is None:
        base = os.environ.get("VERIF_SCRATCH", "/var/tmp")
        _scratch = tempfile.mkdtemp(prefix="isalverif-run.", dir=base)
        atexit.register(lambda: shutil.rmtree(_scratch, ignore_errors=True))
    return _scratch


def run(cmd, **kw):
    kw.setdefault("capture_output", True)
    kw.setdefault("text", True)
    return subprocess.run(cmd, **kw)


def seed():
    try:
        return int(os.environ.get("VERIF_SEED", "1"))
    except ValueError:
        return 1


# ----------------------------------------------------------------------------- Lean

def lake_build(targets=()):
    """(ok, output). Builds the library targets (re-checking every theorem they contain)."""
    cmd = ["lake", "build"] + list(targets)
    r = run(cmd, cwd=LEAN)
    return r.returncode == 0, r.stdout + r.stderr


FORBIDDEN = re.compile(r"\b(sorry|admit|native_decide|bv_decide|implemented_by|unsafe)\b|^\s*axiom\s|maxHeartbeats\s+0")


def strip_comments(src):
    src = re.sub(r"/-.*?-/", lambda m: "\n" * m.group(0).count("\n"), src, flags=re.S)
    return re.sub(r"--.*", "", src)


def audit_sources():
    """grep the Lean sources for forbidden constructs (outside comments)"""
    hits = []
    for root, _, files in os.walk(os.path.join(LEAN, "IsalVerif")):
        for f in files:
            if not f.endswith(".lean"):
                continue
            p = os.path.join(root, f)
            for n, line in enumerate(strip_comments(open(p).read()).split("\n"), 1):
                if FORBIDDEN.search(line):
                    hits.append("%s:%d: %s" % (os.path.relpath(p, LEAN), n, line.strip()))
    return hits


def print_axioms(module, theorems):
    """run `#print axioms` on each theorem; returns {thm: [axioms] | None if missing}"""
    src = "import %s\n" % module + "".join("#print axioms %s\n" % t for t in theorems)
    path = os.path.join(scratch(), "axioms_%s.lean" % module.replace(".", "_"))
    open(path, "w").write(src)
    r = run(["lake", "env", "lean", path], cwd=LEAN)
    out = r.stdout + r.stderr
    res = {}
    for t in theorems:
        m = re.search(r"'%s' depends on axioms: \[([^\]]*)\]" % re.escape(t), out)
        if m:
            res[t] = [a.strip() for a in m.group(1).replace("\n", " ").split(",") if a.strip()]
        elif re.search(r"'%s' does not depend on any axioms" % re.escape(t), out):
            res[t] = []
        else:
            res[t] = None
    return res, out


# ----------------------------------------------------------------------------- harness

TRAMP_SRC = ("tramp.asm",)


def harness_bin(name, variant="default", extra_src=(), libs=("-lcrypto",), cflags=()):
    """compile harness/<name>.c against the library built from the current tree (cached next to it)"""
    b = build_repo.get_build(variant)
    srcs = [os.path.join(HARNESS, name + ".c")] + [os.path.join(HARNESS, s) for s in extra_src]
    h = hashlib.sha256()
    for s in srcs + [os.path.join(HARNESS, x) for x in ("common.h", "tramp.h", "guard.h", "sens.h")]:   # headers are part of the key
        if os.path.exists(s):
            h.update(open(s, "rb").read())
    h.update(" ".join(cflags).encode())
    out = os.path.join(b, "%s.%s" % (name, h.hexdigest()[:12]))
    if not os.path.exists(out):
        objs = []
        csrcs = []
        for s in srcs:
            if s.endswith(".asm"):
                o = out + "." + os.path.basename(s) + ".o"
                r = run(["nasm", "-f", "elf64", "-I", os.path.join(b, "src", "include") + "/", "-o", o, s])
                if r.returncode:
                    raise RuntimeError("nasm failed: " + r.stderr)
                objs.append(o)
            else:
                csrcs.append(s)
        tmp = out + ".tmp%d" % os.getpid()
        cmd = ["gcc", "-O1", "-g", "-pthread", "-I", os.path.join(b, "src", "include"), "-I", os.path.join(b, "src"),
               "-I", HARNESS] + list(cflags) + ["-o", tmp] + csrcs + objs + [os.path.join(b, "isa-l_crypto.a")] + list(libs)
        r = run(cmd)
        if r.returncode:
            raise RuntimeError("harness compile failed: " + r.stderr[-3000:])
        os.replace(tmp, out)
    return out


# ----------------------------------------------------------------------------- results

class Check:
    def __init__(self, pid, tier):
        self.pid = pid
        self.tier = tier
        self.seed = seed()
        self.t0 = time.time()
        self.violations = []      # (replay_path, no_input_found, what)
        self.known_hit = []
        self.obligations = []     # (name, discharged)
        self.cov = {}
        self.samples = []
        self.assumptions = []
        self.trusted = []
        self.findings = load_findings()
        os.makedirs(REPLAYS, exist_ok=True)
        for f in ([] if os.environ.get("VERIF_REPLAYING") else os.listdir(REPLAYS)):   # replays of earlier runs of this check/seed
            if f.startswith("%s-%s-" % (self.pid, self.seed)):
                try:
                    os.remove(os.path.join(REPLAYS, f))
                except OSError:
                    pass

    def oblige(self, name, ok, detail=""):
        self.obligations.append((name, bool(ok), detail))
        return ok

    def replay_path(self, tag):
        n = len(self.violations) + len(self.known_hit)
        return os.path.join(REPLAYS, "%s-%s-%d-%s.json" % (self.pid, self.seed, n, tag))

    def violation(self, what, replay, no_input=False, match=None):
        """record a violation unless it matches a known finding (then KNOWN-FINDING)"""
        replay = dict(replay)
        replay.setdefault("property", self.pid)
        replay.setdefault("tier", self.tier)
        replay.setdefault("seed", self.seed)
        replay["what"] = what
        replay["source_tree"] = build_repo.tree_hash()
        kf = self.match_known(match or {}, what)
        path = self.replay_path(re.sub(r"[^A-Za-z0-9]+", "-", what)[:40].strip("-"))
        with open(path, "w") as fh:
            json.dump(replay, fh, indent=1)
        if kf is not None:
            self.known_hit.append((kf, what, path))
        else:
            self.violations.append((path, no_input, what))

    def match_known(self, match, what):
        for f in self.findings:
            if f.get("property") != self.pid or f.get("status") != "known":
                continue
            m = f.get("match", {})
            if not m:
                continue
            ok = True
            for k, v in m.items():
                if k.endswith("_regex"):
                    if not re.search(v, str(match.get(k[:-6], ""))):
                        ok = False
                elif match.get(k) != v:
                    ok = False
            if ok:
                return f
        return None

    def finish(self, level="proof", checker_cmd="", rule="", extra=None):
        wall = time.time() - self.t0
        nob = len(self.obligations)
        ndis = sum(1 for o in self.obligations if o[1])
        cov = {
            "obligations": nob,
            "discharged": ndis,
            "checker_cmd": checker_cmd or "lake build (cwd=/verif/lean) + tools/vlib.py audit (#print axioms, forbidden-construct grep)",
            "trusted_base": self.trusted or ["Lean 4.33.0 kernel", "axioms: propext, Classical.choice, Quot.sound"],
            "obligation_list": [{"name": o[0], "discharged": o[1], "detail": o[2]} for o in self.obligations],
            "samples": self.samples[:12] if self.samples else ["(none recorded)"],
            "rule": rule,
        }
        cov.update(self.cov)
        if extra:
            cov.update(extra)
        ev = {
            "property_id": self.pid, "tier": self.tier, "seed": self.seed, "level": level,
            "coverage": cov, "assumptions": self.assumptions, "wall_s": round(wall, 2),
            "violations": len(self.violations),
            "known_findings_hit": [k[0].get("id", "?") for k in self.known_hit],
        }
        os.makedirs(EVID, exist_ok=True)
        with open(os.path.join(EVID, self.pid + ".json"), "w") as fh:
            json.dump(ev, fh, indent=1)
        seen = set()
        for kf, what, path in self.known_hit:
            key = kf.get("id")
            if key in seen:
                continue
            seen.add(key)
            print("KNOWN-FINDING: property=%s %s: %s (replay %s)" % (self.pid, kf.get("id", ""), kf.get("what", what), path))
        for path, no_input, what in self.violations:
            print("VIOLATION property=%s replay=%s %s%s" % (self.pid, path, what.replace("\n", " ")[:200],
                                                          " no-failing-input-found" if no_input else ""))
        print("%s tier=%s seed=%d obligations=%d/%d violations=%d known=%d wall=%.1fs" % (
            self.pid, self.tier, self.seed, ndis, nob, len(self.violations), len(seen), wall))
        return 1 if self.violations else 0


def load_findings():
    p = os.path.join(VERIF, "known_findings.json")
    try:
        return json.load(open(p))["findings"]
    except Exception:
        return []


def lean_obligations(chk, module, theorems, extra_targets=()):
    """re-check `module` (lake build), audit its axioms; records one obligation per theorem.
    Returns True iff all hold.  On failure records a no-failing-input-found violation unless the
    caller handles it (returns the list of failed names)."""
    ok, out = lake_build([module] + list(extra_targets))
    failed = []
    if not ok:
        for t in theorems:
            chk.oblige("lean:" + t, False, "lake build failed")
        errs = "\n".join(l for l in out.split("\n") if "error" in l)[:1500]
        return [("lake build " + module, errs)]
    hits = audit_sources()
    chk.oblige("audit:no sorry/admit/axiom/native_decide/bv_decide/implemented_by/unsafe in lean sources", not hits, "; ".join(hits[:5]))
    if hits:
        failed.append(("audit", "; ".join(hits[:5])))
    if chk.tier == "thorough":
        # independent re-check of the compiled module by the toolchain's stand-alone kernel checker
        r = run(["lake", "env", "leanchecker", module], cwd=LEAN)
        okc = r.returncode == 0
        chk.oblige("leanchecker:" + module, okc, (r.stdout + r.stderr)[-200:])
        if not okc:
            failed.append(("leanchecker " + module, (r.stdout + r.stderr)[-400:]))
    ax, raw = print_axioms(module, theorems)
    for t in theorems:
        a = ax.get(t)
        good = a is not None and set(a) <= ALLOWED_AXIOMS
        chk.oblige("lean:" + t, good, "axioms=%s" % (a,))
        if not good:
            failed.append((t, "axioms=%s" % (a,)))
    return failed
