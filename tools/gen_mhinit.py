#!/usr/bin/env python3
"""gen_mhinit.py <repo> <lean-dir>: `_mh_sha1_init`, `_mh_sha256_init`, `_mh_sha1_murmur3_x64_128_init` of the current tree
-> Gen/MhInit.lean, as data of IsalVerif/Impl/MhInitC.lean.  The `for (i = 0; i < ISAL_HASH_SEGS; i++)` loop is folded into
its `segInit` statements after its shape (init 0, bound the constant 16, `i++`, body = assignments
`<segs>[k][i] = <constant>`) is checked; anything else becomes `.unsupported`."""
import os, re, sys
sys.path.insert(0, os.path.dirname(os.path.abspath(__file__)))
from gen_mhupdate import clang_json, kids, strip, callee, NoFit, width, enum_table
from gen_mhfin import TrFin

SOURCES = [("mh_sha1/mh_sha1.c", "_mh_sha1_init", "mh_sha1_interim_digests"),
           ("mh_sha256/mh_sha256.c", "_mh_sha256_init", "mh_sha256_interim_digests"),
           ("mh_sha1_murmur3_x64_128/mh_sha1_murmur3_x64_128.c", "_mh_sha1_murmur3_x64_128_init", "mh_sha1_interim_digests")]


def ref(n):
    return strip(n).get("referencedDecl", {}).get("name")


def walk(tr, stmts, out, field):
    segs, murp = None, None
    for s in stmts:
        try:
            k = s.get("kind")
            if k == "NullStmt":
                continue
            if k == "DeclStmt":
                if any(kids(v) for v in kids(s)):
                    raise NoFit("initialised declaration")
                continue
            if k == "IfStmt":
                parts = kids(s)
                c0 = strip(parts[0])
                tb = kids(parts[1]) if parts[1].get("kind") == "CompoundStmt" else [parts[1]]
                if len(parts) == 2 and c0.get("kind") == "BinaryOperator" and c0.get("opcode") == "==" and ref(kids(c0)[0]) == "ctx" \
                        and len(tb) == 1 and tb[0].get("kind") == "ReturnStmt":
                    out.append(".nullCheck")
                    continue
                raise NoFit("if")
            if k == "ReturnStmt":
                v = tr.const(kids(s)[0]) if kids(s) else None
                if v is None:
                    raise NoFit("return of a non-constant")
                out.append(".ret (%d)" % v)
                continue
            if k == "CallExpr":
                a = kids(s)[1:]
                if callee(s) == "memset" and len(a) == 3 and ref(a[0]) == "ctx" and tr.const(a[1]) == 0:
                    sz = strip(a[2])
                    inner = strip(kids(sz)[0]) if sz.get("kind") == "UnaryExprOrTypeTraitExpr" and sz.get("name") == "sizeof" and kids(sz) else {}
                    if inner.get("kind") == "UnaryOperator" and inner.get("opcode") == "*" and ref(kids(inner)[0]) == "ctx":
                        out.append(".zeroCtx")
                        continue
                raise NoFit("call " + str(callee(s)))
            if k == "BinaryOperator" and s.get("opcode") == "=":
                lhs, rhs = kids(s)
                l0 = strip(lhs)
                if l0.get("kind") == "DeclRefExpr":
                    nm, r0 = l0["referencedDecl"]["name"], strip(rhs)
                    if r0.get("kind") == "MemberExpr" and r0.get("isArrow") and ref(kids(r0)[0]) == "ctx":
                        if r0.get("name") == field and nm.endswith("_segs_digests"):
                            segs = nm
                            continue
                        if r0.get("name") == "murmur3_x64_128_digest" and (l0.get("type", {}).get("qualType") or "") == "uint64_t *":
                            murp = nm
                            continue
                    raise NoFit("pointer assignment")
                if l0.get("kind") == "ArraySubscriptExpr":
                    b, i = kids(l0)
                    if murp and ref(b) == murp and ref(rhs) == "murmur_seed" and width(l0) == (64, False) and width(rhs) == (64, False):
                        ki = tr.const(i)
                        if ki is None:
                            raise NoFit("murmur word index")
                        out.append(".murSeed %d" % ki)
                        continue
                raise NoFit("assignment")
            if k == "ForStmt":
                fk = s.get("inner", [])
                init, cond, inc, body = fk[0], fk[2], fk[3], fk[4]
                iv = ref(kids(init)[0]) if init.get("kind") == "BinaryOperator" and init.get("opcode") == "=" else None
                c1 = strip(cond)
                if not iv or tr.const(kids(init)[1]) != 0 or c1.get("kind") != "BinaryOperator" or c1.get("opcode") != "<" \
                        or ref(kids(c1)[0]) != iv or tr.const(kids(c1)[1]) != 16 \
                        or inc.get("kind") != "UnaryOperator" or inc.get("opcode") != "++" or ref(kids(inc)[0]) != iv:
                    raise NoFit("loop shape")
                for t in (kids(body) if body.get("kind") == "CompoundStmt" else [body]):
                    if t.get("kind") == "NullStmt":
                        continue
                    if t.get("kind") != "BinaryOperator" or t.get("opcode") != "=":
                        raise NoFit("statement in the segment loop")
                    lhs, rhs = kids(t)
                    l0 = strip(lhs)
                    if l0.get("kind") != "ArraySubscriptExpr" or width(l0) != (32, False):
                        raise NoFit("segment store")
                    row, ii = kids(l0)
                    r0 = strip(row)
                    if r0.get("kind") != "ArraySubscriptExpr" or ref(ii) != iv:
                        raise NoFit("segment store index")
                    base, kk = kids(r0)
                    kc, cv = tr.const(kk), tr.const(rhs)
                    if not segs or ref(base) != segs or kc is None or cv is None or not (0 <= cv < 2 ** 32):
                        raise NoFit("segment store target/value")
                    out.append(".segInit %d %d" % (kc, cv))
                continue
            raise NoFit("statement " + str(k))
        except NoFit as e:
            out.append('.unsupported "%s"' % str(e).replace('"', "'")[:80])
        except Exception as e:
            out.append('.unsupported "translator: %s"' % type(e).__name__)


def normalise(out):
    """adjacent constant stores to pairwise different words commute: runs of `.segInit` (different rows) and of `.murSeed`
    (different words) are put in ascending order, the order of today's source"""
    res, i = [], 0
    while i < len(out):
        kind = ".segInit " if out[i].startswith(".segInit ") else ".murSeed " if out[i].startswith(".murSeed ") else None
        if kind is None:
            res.append(out[i])
            i += 1
            continue
        j = i
        while j < len(out) and out[j].startswith(kind):
            j += 1
        run = out[i:j]
        keys = [int(x.split()[1]) for x in run]
        res += [x for _, x in sorted(zip(keys, run))] if len(set(keys)) == len(keys) else run
        i = j
    return res


def main(argv=None):
    argv = argv or sys.argv[1:]
    repo, lean = argv[0], argv[1]
    tr = TrFin(enum_table(repo))
    import gen_submit
    for hdr in ("include/mh_sha1.h", "include/mh_sha256.h", "include/mh_sha1_murmur3_x64_128.h"):
        def w(n):
            if n.get("kind") == "EnumConstantDecl":
                v = [c for c in n.get("inner", []) if c.get("kind") == "ConstantExpr"]
                if v and "value" in v[0]:
                    tr.enums[n["name"]] = int(v[0]["value"])
            for c in n.get("inner", []):
                w(c)
        for d in gen_submit.clang_json(repo, hdr):
            w(d)
    rows = []
    for rel, fn, field in SOURCES:
        if not os.path.exists(os.path.join(repo, rel)):
            continue
        for d in clang_json(repo, rel, fn):
            cs = [c for c in kids(d) if c.get("kind") == "CompoundStmt"]
            if d.get("kind") != "FunctionDecl" or d.get("name") != fn or not cs:
                continue
            out = []
            walk(tr, kids(cs[0]), out, field)
            out = normalise(out)
            rows.append((rel, fn, out))
            break
    txt = ["import IsalVerif.Impl.MhInitC",
           "/-! GENERATED by tools/gen_mhinit.py from the current tree: the multi-hash init functions. Do not edit. -/",
           "namespace IsalVerif.Gen.MhInit", "open IsalVerif.MhInitC", ""]
    names = []
    for k, (rel, fn, prog) in enumerate(rows):
        names.append("i%d" % k)
        txt.append("def i%d : Src := { file := \"%s\", fn := \"%s\", prog := [\n  %s] }" % (k, rel, fn, ",\n  ".join(prog)))
    txt += ["", "def all : List Src := [%s]" % ", ".join(names), "", "end IsalVerif.Gen.MhInit"]
    dst = os.path.join(lean, "IsalVerif", "Gen", "MhInit.lean")
    t = "\n".join(txt) + "\n"
    if not os.path.exists(dst) or open(dst).read() != t:
        open(dst, "w").write(t)
    uns = sum(1 for _, _, p in rows for s in p if ".unsupported" in s)
    print("mh init: %d functions, %d unsupported statements -> %s" % (len(rows), uns, dst))
    return rows


if __name__ == "__main__":
    main()
