#!/usr/bin/env python3
"""Correspondence run for C09: library (harness/drv_rolling) versus the Lean model (rh_model).

usage: validate_rolling.py <build-dir> [--seeds N] [--nops N] [--maxlen N] [--impls base,00,04,pub] [--big 0|1]

<build-dir> is what `python3 /verif/tools/build_repo.py default` prints (isa-l_crypto.a + src/).
For every implementation and seed: generate + execute the operation history on the library, replay
it on the model, diff the result streams line by line and explain every disagreement.  The only
accepted explanation is defect F5 (assembly scans, odd trailing byte): the library returns HIT with
offset = max_len + 1 where the model returns HIT with offset = max_len and the same hash; each such
line must also have been flagged by the driver's own MONITOR lines.  (F5 was fixed in /repo commit
57e0491: on a current tree the expected number of disagreements is zero for every implementation.)
With --big 1 (default) the first seed of every implementation also executes one call with
max_len >= 2^31 (`big=1` of the driver, monitors only); its BIG line must be identical for all
implementations and no C09-large-len monitor may fire.  Exit status 0 iff there is no unexplained
disagreement.
"""
import os
import subprocess
import sys
import time

HERE = os.path.dirname(os.path.abspath(__file__))
ROOT = os.path.dirname(HERE)


def kv(line):
    return dict(t.split("=", 1) for t in line.split() if "=" in t)


def main():
    args = sys.argv[1:]
    if not args:
        sys.exit(__doc__)
    b = args[0]

    def opt(name, default):
        return args[args.index(name) + 1] if name in args else default
    seeds = int(opt("--seeds", "4"))
    nops = int(opt("--nops", "20000"))
    maxlen = int(opt("--maxlen", "600"))
    impls = opt("--impls", "base,00,04,pub").split(",")
    big = opt("--big", "1") == "1"
    biglines = {}
    out = os.path.join(ROOT, "out")
    os.makedirs(out, exist_ok=True)
    drv = os.path.join(out, "drv_rolling")
    subprocess.check_call(["gcc", "-O1", "-g", "-pthread", "-Wall", "-I", os.path.join(b, "src", "include"),
                           "-I", os.path.join(b, "src"), "-I", os.path.join(ROOT, "harness"),
                           "-Wl,--wrap=_rolling_hash2_run_until", "-o", drv,
                           os.path.join(ROOT, "harness", "drv_rolling.c"), os.path.join(b, "isa-l_crypto.a")])
    model = os.path.join(ROOT, ".lake", "build", "bin", "rh_model")
    unexplained = 0
    for impl in impls:
        tot = dict(ops=0, runs=0, hits=0, diffs=0, f5=0, mon_beyond=0, mon_dis=0, t_drv=0.0, t_model=0.0,
                   big=0, bigfail=0)
        minimal = None
        for seed in range(1, seeds + 1):
            ops, res = os.path.join(out, "ops.%s.%d" % (impl, seed)), os.path.join(out, "res.%s.%d" % (impl, seed))
            t0 = time.time()
            extra = ["big=1"] if big and seed == 1 else []
            mon = subprocess.run([drv, impl, str(seed), str(nops), str(maxlen), ops, res] + extra,
                                 capture_output=True, text=True, check=True).stdout.splitlines()
            t1 = time.time()
            mres = subprocess.run([model], stdin=open(ops), capture_output=True, text=True, check=True).stdout.splitlines()
            t2 = time.time()
            tot["t_drv"] += t1 - t0
            tot["t_model"] += t2 - t1
            cres = open(res).read().splitlines()
            oplines = open(ops).read().splitlines()
            summ = kv([l for l in mon if l.startswith("SUMMARY")][0])
            tot["ops"] += len(oplines)
            tot["runs"] += int(summ["runs"])
            tot["hits"] += int(summ["hits"])
            tot["mon_beyond"] += int(summ["offset_beyond_max_len"])
            tot["mon_dis"] += int(summ["scan_disagrees"])
            tot["big"] += int(summ["large_len_ops"])
            tot["bigfail"] += int(summ["large_len_failures"])
            for l in mon:
                if l.startswith("MONITOR C09-large-len"):
                    print("UNEXPLAINED " + l)
                    unexplained += 1
                if l.startswith("BIG "):
                    biglines[impl] = l.replace("impl=%s " % impl, "")
            flagged = set(l.split('op="')[1].split('"')[0] for l in mon
                          if l.startswith("MONITOR C09-offset-beyond-max-len") and "MINIMAL" not in l)
            for l in mon:
                if "MINIMAL" in l:
                    ln = int(l.split('op="N ')[1].split()[0])
                    if minimal is None or ln < minimal[0]:
                        minimal = (ln, l)
            if len(cres) != len(mres):
                print("UNEXPLAINED impl=%s seed=%d: %d library lines vs %d model lines" % (impl, seed, len(cres), len(mres)))
                unexplained += 1
            for i, (c, m) in enumerate(zip(cres, mres)):
                if c == m:
                    continue
                tot["diffs"] += 1
                op = oplines[i]
                ok = False
                if op.startswith("N ") and impl != "base":
                    ln = int(op.split()[1])
                    ck, mk = kv(c), kv(m)
                    ok = (ck["ret"] == "0" and mk["ret"] == "0" and int(ck["off"]) == ln + 1 and int(mk["off"]) == ln
                          and ck["h"] == mk["h"] and (ln - int(len(mk["hist"]) / 2)) % 2 == 1 and op in flagged)
                if ok:
                    tot["f5"] += 1
                else:
                    unexplained += 1
                    print("UNEXPLAINED impl=%s seed=%d line=%d op=%r\n  library: %s\n  model:   %s" % (impl, seed, i + 1, op, c, m))
        print("impl=%-4s seeds=%d ops=%d runs=%d hit_rate=%.3f | model-diffs=%d explained-by-F5=%d | monitors: "
              "offset-beyond-max-len=%d scan-disagrees-with-base=%d large-len ops=%d failures=%d | drv %.1fs model %.1fs"
              % (impl, seeds, tot["ops"], tot["runs"], tot["hits"] / max(1, tot["runs"]), tot["diffs"], tot["f5"],
                 tot["mon_beyond"], tot["mon_dis"], tot["big"], tot["bigfail"], tot["t_drv"], tot["t_model"]))
        if minimal:
            print("  " + minimal[1])
    if biglines:
        if len(set(biglines.values())) == 1:
            print("large-len call identical for %s: %s" % (",".join(biglines), next(iter(biglines.values()))))
        else:
            unexplained += 1
            for k, v in biglines.items():
                print("UNEXPLAINED large-len results differ: %s: %s" % (k, v))
    print("RESULT: %s" % ("no unexplained disagreement" if not unexplained else "%d UNEXPLAINED" % unexplained))
    sys.exit(1 if unexplained else 0)


if __name__ == "__main__":
    main()
