#!/usr/bin/env python3
"""Teeth of the Scrub checker: seeded edits on a scratch COPY of the source tree (never /repo).

    seed_c14.py [--lean] [--only NAME]

For each seeded edit: copy `<build>/src` to a scratch directory, apply the edit, rebuild the library there,
run the Scrub analysis on the AES objects and report the functions that passed on the unmodified tree and
are rejected now (with the reason).  With --lean, for each newly rejected leaf function a Lean file is
generated that proves `checkSFunc <baseline tables> f = false` by `decide +kernel`: the kernel checker too
rejects the seeded function against the summary it had before the edit.
"""
import os, sys, re, shutil, subprocess, time, json

HERE = os.path.dirname(os.path.abspath(__file__))
ROOT = os.path.dirname(HERE)
sys.path.insert(0, HERE)
import build_repo
import scrub_core as S
import gen_scrub as GS

SCRATCH = os.environ.get("SEED_DIR", "/tmp/agent_c14_seed")


def sub_once(text, old, new, count=1, nth=None):
    if nth is not None:
        idx = -1
        for _ in range(nth):
            idx = text.index(old, idx + 1)
        return text[:idx] + new + text[idx + len(old):]
    assert old in text, "seed anchor not found: " + old[:60]
    return text.replace(old, new, count)


PXOR_EDIT = ("include/clear_regs.inc",
             lambda t: sub_once(t, "; On Linux, all ZMM registers are scratch registers\n        vpxorq  xmm0, xmm0, xmm0",
                                "; On Linux, all ZMM registers are scratch registers\n        pxor    xmm0, xmm0"))

# (name, description, [(file, edit)], expected to be rejected)
SEEDS = [
    ("S1-gcm-init-vaes-no-clear",
     "remove the clear_scratch_zmms_asm invocation of the GCM init function (vaes_avx512 family)",
     [("aes/gcm_vaes_avx512.asm",
       lambda t: sub_once(t, "%ifdef SAFE_DATA\n        clear_scratch_zmms_asm\n%endif ;; SAFE_DATA\n        FUNC_RESTORE\n        ret\n\n%endif\t; _nt",
                          "        FUNC_RESTORE\n        ret\n\n%endif\t; _nt"))], True),
    ("S2a-legacy-pxor-in-zmm-scrub-harmless",
     "clear_scratch_zmms_asm: `vpxorq xmm0,xmm0,xmm0` replaced by legacy `pxor xmm0,xmm0`.  NOT a leak in this library: "
     "the macro itself ends with `vzeroupper` (and so does FUNC_RESTORE), which clears bits 128..511 of zmm0-15; "
     "the checker must ACCEPT",
     [PXOR_EDIT], False),
    ("S2b-legacy-pxor-in-zmm-scrub",
     "the same edit, and the two `vzeroupper` that follow (end of the macro, FUNC_RESTORE of gcm_vaes_avx512.inc) removed: "
     "bits 128..511 of zmm0 keep key-dependent data",
     [("include/clear_regs.inc",
       lambda t: sub_once(PXOR_EDIT[1](t), "%endif ; elf64\n       vzeroupper\n%endmacro", "%endif ; elf64\n%endmacro")),
      ("intel-ipsec-mb/lib/include/gcm_vaes_avx512.inc",
       lambda t: sub_once(t, "%macro FUNC_RESTORE 0\n\n        vzeroupper\n", "%macro FUNC_RESTORE 0\n\n"))], True),
    ("S3-xts-tweak-spill-not-cleared",
     "XTS_AES_128_enc_sse: drop the stores that clear the on-stack tweak array TW",
     [("aes/XTS_AES_128_enc_sse.asm",
       lambda t: sub_once(t, "%assign i 0\n%rep 8\n        movdqa  [TW + i*16], xmm0\n%assign i (i + 1)\n%endrep\n", ""))], True),
    ("S4-early-ret-before-scrub",
     "_aes_cbc_enc_128_x4: a conditional early `ret` in front of the SAFE_DATA block",
     [("aes/cbc_enc_128_x4_sb.asm",
       lambda t: sub_once(t, "done:\n%ifdef SAFE_DATA", "done:\n\tjp\tdone_scrub\n\tFUNC_RESTORE\n\tret\ndone_scrub:\n%ifdef SAFE_DATA"))], True),
    ("S5-gcm-sse-finalize-no-clear",
     "remove the clear_scratch_xmms_sse_asm invocation of the GCM encrypt-finalize function (sse family)",
     [("aes/gcm_sse.asm",
       lambda t: sub_once(t, "%ifdef SAFE_DATA\n        clear_scratch_xmms_sse_asm\n%endif ;; SAFE_DATA\n", "", nth=5))], True),
    ("S6-xts-vaes-key-schedule-not-cleared",
     "XTS_AES_128_dec_vaes (raw-key variant): keep the on-stack key schedule (drop one of the clearing stores)",
     [("aes/XTS_AES_128_dec_vaes.asm",
       lambda t: sub_once(t, "        vmovdqa64       [keys + 4*16], zmm0\n", "", nth=1))], True),
]


def build_tree(src_from, name, edits):
    d = os.path.join(SCRATCH, name)
    if os.path.exists(d):
        shutil.rmtree(d)
    os.makedirs(d)
    src = os.path.join(d, "src")
    shutil.copytree(src_from, src)
    diff = ""
    for relfile, edit in edits:
        p = os.path.join(src, relfile)
        text = open(p).read()
        new = edit(text)
        assert new != text, "seed did not change " + relfile
        open(p, "w").write(new)
        diff += subprocess.run(["diff", "-u", os.path.join(src_from, relfile), p], capture_output=True, text=True).stdout
    r = subprocess.run(["make", "-f", "Makefile.unx", "-j16", "lib"], cwd=src, capture_output=True, text=True)
    if r.returncode != 0:
        sys.stderr.write(r.stdout[-2000:] + r.stderr[-2000:])
        raise RuntimeError("seeded build failed: " + name)
    objs = os.path.join(d, "objs")
    os.makedirs(objs)
    subprocess.run(["ar", "x", os.path.join(src, "bin", "isa-l_crypto.a")], cwd=objs, check=True)
    shutil.rmtree(os.path.join(src, "bin"), ignore_errors=True)
    return d, diff


def lean_reject(L, f, base_tables_note, outdir, seedname):
    """Lean file proving that the kernel checker rejects f against the BASELINE summary tables"""
    res = L.res[f.gid]
    # records and certificates of the seeded function as computed now (the fixpoint is what it is: the check fails at an exit)
    mod = "Seed_%s_%s" % (re.sub(r"\W", "_", seedname), re.sub(r"\W", "_", f.name))
    tmpL = L
    save = tmpL.res[f.gid].rule
    tmpL.res[f.gid].rule = "Z"          # let the emitter print it
    try:
        GS.emit_object(tmpL, f.key[0], [f], os.path.join(outdir, "_seed_tmp"))
    finally:
        tmpL.res[f.gid].rule = save
    src = open(os.path.join(outdir, "_seed_tmp", "Gen", "Scrub", GS.modname(f.key[0]) + ".lean")).read()
    src = src.replace("namespace IsalVerif.Gen.Scrub.%s" % GS.modname(f.key[0]), "namespace IsalVerif.Seeded.%s" % mod)
    src = src.replace("end IsalVerif.Gen.Scrub.%s" % GS.modname(f.key[0]), "")
    src = src.replace("import IsalVerif.Impl.Scrub", "import IsalVerif.Impl.Scrub\nimport IsalVerif.Gen.Scrub.Tables")
    src += "\nopen IsalVerif.Gen.Scrub in\n/-- the kernel-evaluated checker rejects the seeded `%s` (baseline summary tables) -/\n" % f.name
    src += "theorem rejected : checkSFunc Tables.gtab Tables.vtab Tables.sigs f0 = false := by decide +kernel\n"
    src += "\nend IsalVerif.Seeded.%s\n" % mod
    shutil.rmtree(os.path.join(outdir, "_seed_tmp"), ignore_errors=True)
    p = os.path.join(outdir, "Seeded", mod + ".lean")
    os.makedirs(os.path.dirname(p), exist_ok=True)
    open(p, "w").write(src)
    return p, "IsalVerif.Seeded." + mod


def main():
    lean = "--lean" in sys.argv
    only = sys.argv[sys.argv.index("--only") + 1] if "--only" in sys.argv else None
    base = build_repo.get_build("default")
    Lb = S.load(base)
    S.analyse(Lb)
    base_rule = {f.name: Lb.res[f.gid].rule for f in Lb.funcs}
    report = []
    ok_all = True
    for name, what, edits, expect in SEEDS:
        if only and only not in name:
            continue
        t0 = time.time()
        try:
            d, diff = build_tree(os.path.join(base, "src"), name, edits)
        except AssertionError as e:
            print("== %s: %s\n   !! %s" % (name, what, e))
            ok_all = False
            continue
        L = S.load(d)
        S.analyse(L)
        newly = []
        for f in L.funcs:
            r = L.res[f.gid]
            if base_rule.get(f.name) and not r.rule:
                i, msg = r.fail
                rec = f.srecs[i] if i < len(f.srecs) else None
                newly.append((f, "%s @%s `%s`: %s" % (f.name, "%x" % rec.addr if rec is not None and rec.addr is not None else "?",
                                                       rec.text if rec else "", msg)))
        print("== %s: %s" % (name, what))
        print("   files %s, rebuilt + analysed in %.0fs; functions newly rejected: %d" % (", ".join(e[0] for e in edits), time.time() - t0, len(newly)))
        leaf = [(f, m) for f, m in newly if "does not pass" not in m and "candidate" not in m]
        for f, m in leaf:
            print("   REJECTED", m)
        print("   (+ %d callers / dispatch stubs rejected because they reach a rejected function)" % (len(newly) - len(leaf)))
        entry = {"seed": name, "what": what, "files": [e[0] for e in edits], "diff": diff, "expected_rejected": expect,
                 "rejected": [m for f, m in leaf],
                 "dependent_rejected": [f.name for f, m in newly if (f, m) not in leaf]}
        if expect and not leaf:
            ok_all = False
            print("   !! seed NOT detected")
        if not expect:
            print("   expected: accepted -> %s" % ("ACCEPTED (correct)" if not newly else "!! rejected"))
            ok_all = ok_all and not newly
        if lean and leaf:
            f = leaf[0][0]
            p, mod = lean_reject(L, f, None, os.path.join(ROOT, "IsalVerif"), name)
            t1 = time.time()
            r = subprocess.run(["lake", "build", mod], cwd=ROOT, capture_output=True, text=True)
            good = r.returncode == 0
            print("   Lean kernel: `checkSFunc ... = false` for %s: %s (%.0fs)" % (f.name, "PROVED" if good else "FAILED\n" + r.stdout[-1500:], time.time() - t1))
            entry["lean"] = {"module": mod, "function": f.name, "proved_rejected": good}
            ok_all = ok_all and good
        report.append(entry)
    json.dump(report, open(os.path.join(ROOT, "report_seeded.json"), "w"), indent=1)
    return 0 if ok_all else 1


if __name__ == "__main__":
    sys.exit(main())
