#!/usr/bin/env python3
"""gen_murmur.py <repo> <lean-dir>: the 64-bit arithmetic of `_murmur3_x64_128_block` (loop body) and
`_murmur3_x64_128_tail` (after the tail bytes are gathered) of mh_sha1_murmur3_x64_128/murmur3_x64_128_internal.c
-> Gen/Murmur.lean, as data of IsalVerif/Impl/MurC.lean.

The `static inline` helpers blockmix64 / hashmix64 are inlined: their bodies have to be straight-line assignments to
their own parameters followed by `return <param>`; the call is replaced by the returned expression with the arguments
substituted.  `64 - <const>` is folded.  The statements around the arithmetic (declarations, the `while (i < num_blocks)`
frame with `input_qword[i * 2 + k]`, the byte-gathering loop of the tail function) are compared, as a shape string of their
AST, with the shape they have today (FRAME_*): `frame := false` if they differ, which no proof accepts."""
import os, re, sys
sys.path.insert(0, os.path.dirname(os.path.abspath(__file__)))
from gen_mhupdate import clang_json, kids, strip, callee, NoFit, width

SRC = "mh_sha1_murmur3_x64_128/murmur3_x64_128_internal.c"
VARS = {"data1": "d1", "data2": "d2"}


def shape(n):
    k = n.get("kind", "?")
    bits = [k]
    for f in ("opcode", "value", "castKind", "name", "isPostfix"):
        if f in n and not (f == "name" and k in ("RecordDecl",)):
            bits.append(str(n[f]))
    if "referencedDecl" in n:
        bits.append("@" + n["referencedDecl"].get("name", "?"))
    if k in ("VarDecl", "FieldDecl"):
        bits.append(re.sub(r"\(unnamed union at [^)]*\)", "(union)", n.get("type", {}).get("qualType", "")))
    return "(" + " ".join(bits) + "".join(" " + shape(c) for c in kids(n)) + ")"


def lit(v):
    return ("lit", v % (1 << 64))


class Sym:
    def __init__(self, helpers):
        self.helpers = helpers     # name -> FunctionDecl

    def ex(self, n, env):
        """symbolic 64-bit value of expression n; env: variable name -> expr"""
        k = n.get("kind")
        if k == "IntegerLiteral":
            v = int(n["value"])
            return lit(v)
        if k == "ParenExpr":
            return self.ex(kids(n)[0], env)
        if k in ("ImplicitCastExpr", "CStyleCastExpr"):
            ck, inner = n.get("castKind"), kids(n)[0]
            if ck in ("LValueToRValue", "NoOp"):
                return self.ex(inner, env)
            if ck == "IntegralCast":
                bits, sg = width(n)
                ib, isg = width(inner)
                e = self.ex(inner, env)
                if e[0] == "lit" and not sg:
                    return lit(e[1] % (1 << bits)) if bits >= 64 or e[1] < (1 << bits) else NoFitRaise("narrowing literal")
                if not sg and not isg and bits >= ib:
                    return e          # zero extension of an unsigned value
                raise NoFit("conversion")
            raise NoFit("cast " + str(ck))
        if k == "DeclRefExpr":
            nm = n["referencedDecl"]["name"]
            if nm in env:
                return env[nm]
            raise NoFit("variable " + nm)
        if k == "ArraySubscriptExpr":
            b, i = kids(n)
            b0 = strip(b)
            key = None
            if b0.get("kind") == "DeclRefExpr":
                key = b0["referencedDecl"]["name"]
            elif b0.get("kind") == "MemberExpr" and strip(kids(b0)[0]).get("referencedDecl", {}).get("name") == "hashU":
                key = "hashU." + b0.get("name", "?")
            idx = self.index(i)
            if (key, idx) in env:
                return env[(key, idx)]
            raise NoFit("array read %s[%s]" % (key, idx))
        if k == "BinaryOperator":
            op = n["opcode"]
            a, b = kids(n)
            names = {"*": "mul", "+": "add", "^": "xor", "|": "or", "&": "and", "<<": "shl", ">>": "shr", "-": "sub"}
            if op not in names:
                raise NoFit("operator " + op)
            if op == "-":
                # a constant shift count such as `64 - 1` (int arithmetic on literals): folded
                la, lb = strip(a), strip(b)
                if la.get("kind") == "IntegerLiteral" and lb.get("kind") == "IntegerLiteral" and int(la["value"]) >= int(lb["value"]):
                    return lit(int(la["value"]) - int(lb["value"]))
            if width(n) != (64, False):
                raise NoFit("arithmetic not in uint64_t")
            ea, eb = self.ex(a, env), self.ex(b, env)
            if op == "-":
                if ea[0] == "lit" and eb[0] == "lit" and ea[1] >= eb[1]:
                    return lit(ea[1] - eb[1])
                raise NoFit("subtraction of non-constants")
            if op in ("<<", ">>"):
                if eb[0] != "lit" or not (0 < eb[1] < 64):
                    raise NoFit("shift count")
                return (names[op], ea, eb[1])
            return (names[op], ea, eb)
        if k == "CallExpr":
            cal = callee(n)
            if cal in self.helpers:
                return self.inline(self.helpers[cal], [self.ex(a, env) for a in kids(n)[1:]])
            raise NoFit("call " + str(cal))
        raise NoFit("expression " + str(k))

    def index(self, i):
        """constant index, or ('i', k) for `i * 2 + k`"""
        i0 = strip(i)
        if i0.get("kind") == "IntegerLiteral":
            return int(i0["value"])
        def twice(m):
            m = strip(m)
            if m.get("kind") == "BinaryOperator" and m.get("opcode") == "*":
                a, b = [strip(x) for x in kids(m)]
                return a.get("referencedDecl", {}).get("name") == "i" and b.get("kind") == "IntegerLiteral" and b.get("value") == "2"
            return False
        if twice(i0):
            return ("i", 0)
        if i0.get("kind") == "BinaryOperator" and i0.get("opcode") == "+":
            a, b = kids(i0)
            b0 = strip(b)
            if twice(a) and b0.get("kind") == "IntegerLiteral" and b0.get("value") == "1":
                return ("i", 1)
        return None

    def inline(self, fd, args):
        params = [p for p in kids(fd) if p.get("kind") == "ParmVarDecl"]
        body = [c for c in kids(fd) if c.get("kind") == "CompoundStmt"][0]
        if len(params) != len(args) or any(width(p) != (64, False) for p in params):
            raise NoFit("helper signature")
        env = {p["name"]: a for p, a in zip(params, args)}
        for s in kids(body):
            k = s.get("kind")
            if k == "ReturnStmt":
                return self.ex(kids(s)[0], env)
            dst, e = self.assign(s, env)
            if not isinstance(dst, str) or dst not in env:
                raise NoFit("helper assigns to a non-parameter")
            env[dst] = e
        raise NoFit("helper without return")

    def assign(self, s, env):
        """`x = e` / `x op= e` -> (destination key, symbolic value)"""
        k = s.get("kind")
        if k not in ("BinaryOperator", "CompoundAssignOperator") or (k == "BinaryOperator" and s.get("opcode") != "="):
            raise NoFit("statement " + str(k))
        lhs, rhs = kids(s)
        l0 = strip(lhs)
        if l0.get("kind") == "DeclRefExpr":
            dst = l0["referencedDecl"]["name"]
        elif l0.get("kind") == "ArraySubscriptExpr":
            b, i = kids(l0)
            b0 = strip(b)
            dst = (b0.get("referencedDecl", {}).get("name"), self.index(i))
        else:
            raise NoFit("assignment target")
        if width(lhs) != (64, False):
            raise NoFit("assignment target not uint64_t")
        e = self.ex(rhs, env)
        if k == "CompoundAssignOperator":
            op = {"*=": "mul", "+=": "add", "^=": "xor", "|=": "or"}.get(s.get("opcode"))
            if op is None:
                raise NoFit("operator " + str(s.get("opcode")))
            if dst not in env:
                raise NoFit("compound assignment to an unknown location")
            e = (op, env[dst], e)
        return dst, e


def NoFitRaise(msg):
    raise NoFit(msg)


def lean(e):
    t = e[0]
    if t == "v":
        return "(.v .%s)" % e[1]
    if t == "q":
        return "(.q %d)" % e[1]
    if t == "len":
        return ".len"
    if t == "lit":
        return "(.lit %d)" % e[1]
    if t in ("shl", "shr"):
        return "(.%s %s %d)" % (t, lean(e[1]), e[2])
    return "(.%s %s %s)" % (t, lean(e[1]), lean(e[2]))


DST = {"data1": "d1", "data2": "d2", ("hash", 0): "h0", ("hash", 1): "h1"}


def arith(sym, stmts, env, out):
    for s in stmts:
        try:
            dst, e = sym.assign(s, env)
            if dst not in DST:
                raise NoFit("assignment to " + str(dst))
            out.append("⟨.%s, %s⟩" % (DST[dst], lean(e)))
        except NoFit as ex:
            out.append('⟨.d1, .lit 0⟩ /- unsupported: %s -/' % str(ex).replace("-/", "- /")[:80])
            return False
        except Exception as ex:
            out.append('⟨.d1, .lit 0⟩ /- translator: %s -/' % type(ex).__name__)
            return False
    return True


FRAME = {}   # filled from frames.json next to this file


def main(argv=None):
    argv = argv or sys.argv[1:]
    repo, lean_dir = argv[0], argv[1]
    import json
    FRAME.update(json.load(open(os.path.join(os.path.dirname(os.path.abspath(__file__)), "murmur_frames.json"))))
    fds = {}
    for flt in ("blockmix64", "hashmix64", "_murmur3_x64_128_block", "_murmur3_x64_128_tail"):
        for d in clang_json(repo, SRC, flt):
            if d.get("kind") == "FunctionDecl" and d.get("name") == flt and any(c.get("kind") == "CompoundStmt" for c in kids(d)):
                fds[flt] = d
    sym = Sym({k: fds[k] for k in ("blockmix64", "hashmix64") if k in fds})
    base_env = {"data1": ("v", "d1"), "data2": ("v", "d2"), ("hash", 0): ("v", "h0"), ("hash", 1): ("v", "h1")}
    rows, shapes = [], {}
    # ---- block function: frame = everything but the loop body's assignments
    fd = fds.get("_murmur3_x64_128_block")
    if fd is not None:
        body = kids([c for c in kids(fd) if c.get("kind") == "CompoundStmt"][0])
        wh = [s for s in body if s.get("kind") == "WhileStmt"]
        out, ok = [], False
        fr = [shape(p) for p in kids(fd) if p.get("kind") == "ParmVarDecl"] + [shape(s) for s in body if s.get("kind") != "WhileStmt"]
        if len(wh) == 1:
            cond, wb = kids(wh[0])
            wstm = kids(wb) if wb.get("kind") == "CompoundStmt" else [wb]
            fr += ["while " + shape(cond), "last " + (shape(wstm[-1]) if wstm else "")]
            env = dict(base_env)
            env[("input_qword", ("i", 0))] = ("q", 0)
            env[("input_qword", ("i", 1))] = ("q", 1)
            ok = arith(sym, wstm[:-1], env, out)
        shapes["block"] = fr
        rows.append(("_murmur3_x64_128_block", ok and fr == FRAME.get("block"), out))
    # ---- tail function: frame = everything up to and including the gathering loop, and the final return
    fd = fds.get("_murmur3_x64_128_tail")
    if fd is not None:
        body = kids([c for c in kids(fd) if c.get("kind") == "CompoundStmt"][0])
        wi = [j for j, s in enumerate(body) if s.get("kind") == "WhileStmt"]
        out, ok, fr = [], False, [shape(p) for p in kids(fd) if p.get("kind") == "ParmVarDecl"]
        if len(wi) == 1:
            j = wi[0]
            rest = [s for s in body[j + 1:] if s.get("kind") != "ReturnStmt"]
            fr += [shape(s) for s in body[:j + 1]] + [shape(s) for s in body[j + 1:] if s.get("kind") == "ReturnStmt"]
            env = dict(base_env)
            env[("hashU.hash", 0)] = ("q", 0)
            env[("hashU.hash", 1)] = ("q", 1)
            env["total_len"] = ("len",)
            ok = arith(sym, rest, env, out)
        shapes["tail"] = fr
        rows.append(("_murmur3_x64_128_tail", ok and fr == FRAME.get("tail"), out))
    if os.environ.get("MURMUR_DUMP_FRAMES"):
        json.dump(shapes, open(os.environ["MURMUR_DUMP_FRAMES"], "w"), indent=0)
    txt = ["import IsalVerif.Impl.MurC",
           "/-! GENERATED by tools/gen_murmur.py from the current tree: the arithmetic of the murmur block / tail functions. Do not edit. -/",
           "namespace IsalVerif.Gen.Murmur", "open IsalVerif.MurC", ""]
    names = []
    for k, (fn, frame, prog) in enumerate(rows):
        names.append("m%d" % k)
        txt.append("def m%d : Src := { fn := \"%s\", frame := %s, prog := [\n  %s] }" % (k, fn, "true" if frame else "false", ",\n  ".join(prog)))
    txt += ["", "def all : List Src := [%s]" % ", ".join(names), "", "end IsalVerif.Gen.Murmur"]
    dst = os.path.join(lean_dir, "IsalVerif", "Gen", "Murmur.lean")
    t = "\n".join(txt) + "\n"
    if not os.path.exists(dst) or open(dst).read() != t:
        open(dst, "w").write(t)
    print("murmur: %d functions, frames %s -> %s" % (len(rows), [r[1] for r in rows], dst))
    return rows


if __name__ == "__main__":
    main()
