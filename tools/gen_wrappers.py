#!/usr/bin/env python3
"""
gen_wrappers.py - TRANSLATOR for the API wrappers of isa-l_crypto (properties C13, C16).

For each wrapper source file, under the define sets
    default : -DSAFE_PARAM -DSAFE_DATA -DNO_COMPAT_ISAL_CRYPTO_API_2_24
    fips    : default + -DFIPS_MODE
it asks clang-14 for the JSON AST, takes every function whose name starts with `isal_` and every
deprecated legacy counterpart (the pairing comes from the headers: the prototype that follows
`ISAL_DEPRECATED("Please use isal_X() instead")` is the legacy form of `isal_X`), and translates
the body into the statement language of IsalVerif/Impl/Wrapper.lean.  Anything that does not fit
becomes `Stmt.opaque "<source>"` which every Lean checker rejects.

Outputs (relative to --out, default: the directory above tools/):
    IsalVerif/Gen/WrappersDefault.lean, IsalVerif/Gen/WrappersFips.lean   Lean data
    harness/gen_api.h          typed call stubs + parameter table for harness/drv_api.c
    harness/gen_wrap_syms.txt  internal symbols that can be interposed with ld --wrap
    harness/gen_unwrapped_syms.txt  callees defined in the wrapper's own object (run for real)
    harness/gen_summary.json   counts (entries, opaque, pairs) for the README / check scripts

The translation is purely syntactic.  Trusted normalisations, all local and listed here:
  * casts and parentheses are dropped (`(uint8_t *) iv` is the parameter `iv`);
  * enum constants and integer constant expressions are folded to numbers;
  * `T *cp = f(..); *out = cp;` is the same as `*out = f(..);` (SM3 submit);
  * `x == NULL` / `NULL == x` / `!x` on a pointer parameter is `isNull x`;
  * a same-file callee tested with `if (f(args) < 0) return C;` contributes its own leading
    `if (cond) return k;` guards (over the wrapper's parameters) - rolling_hash2_init.
"""
import argparse, json, os, re, subprocess, sys

WRAPPER_FILES = [
    'aes/aes_gcm.c', 'aes/gcm_pre.c', 'aes/aes_cbc.c', 'aes/aes_xts.c', 'aes/aes_keyexp.c',
    'sha1_mb/sha1_mb.c', 'sha256_mb/sha256_mb.c', 'sha512_mb/sha512_mb.c',
    'md5_mb/md5_mb.c', 'sm3_mb/sm3_mb.c',
    'mh_sha1/mh_sha1.c', 'mh_sha256/mh_sha256.c',
    'mh_sha1_murmur3_x64_128/mh_sha1_murmur3_x64_128.c',
    'rolling_hash/rolling_hash2.c',
    'fips/self_tests.c', 'misc/version.c',
]
INC_DIRS = ['include', 'aes', 'sha1_mb', 'sha256_mb', 'sha512_mb', 'md5_mb', 'sm3_mb', 'mh_sha1',
            'mh_sha256', 'mh_sha1_murmur3_x64_128', 'rolling_hash', 'fips']
DEFINES = {
    'default': ['-DSAFE_PARAM', '-DSAFE_DATA', '-DNO_COMPAT_ISAL_CRYPTO_API_2_24'],
    'fips':    ['-DSAFE_PARAM', '-DSAFE_DATA', '-DNO_COMPAT_ISAL_CRYPTO_API_2_24', '-DFIPS_MODE'],
}
PUBLIC_HEADERS = ['isal_crypto_api.h', 'aes_gcm.h', 'aes_cbc.h', 'aes_xts.h', 'aes_keyexp.h',
                  'sha1_mb.h', 'sha256_mb.h', 'sha512_mb.h', 'md5_mb.h', 'sm3_mb.h', 'mh_sha1.h',
                  'mh_sha256.h', 'mh_sha1_murmur3_x64_128.h', 'rolling_hashx.h']


class NoFit(Exception):
    """The AST node is outside the statement language."""


# ------------------------------------------------------------------------------------------------
# clang
# ------------------------------------------------------------------------------------------------
def clang_ast(repo, relfile, defines):
    cmd = ['clang-14', '-fsyntax-only', '-Wno-everything', '-Xclang', '-ast-dump=json'] + defines
    cmd += ['-I' + os.path.join(repo, d) for d in INC_DIRS]
    cmd.append(os.path.join(repo, relfile))
    p = subprocess.run(cmd, capture_output=True, text=True)
    if p.returncode != 0:
        sys.exit('clang failed on %s:\n%s' % (relfile, p.stderr[:2000]))
    return json.loads(p.stdout)


def legacy_pairs(repo):
    """(legacy name, isal name) from the deprecation macros of the public headers, in header order."""
    pairs = []
    rx = re.compile(r'ISAL_DEPRECATED\("Please use (\w+)\(\) instead\.?"\)\s*([^;{(]*?)\b(\w+)\s*\(')
    for h in PUBLIC_HEADERS:
        txt = open(os.path.join(repo, 'include', h)).read()
        for m in rx.finditer(txt):
            pairs.append((m.group(3), m.group(1)))
    return pairs


# ------------------------------------------------------------------------------------------------
# AST helpers
# ------------------------------------------------------------------------------------------------
TRANSPARENT = ('ParenExpr', 'ImplicitCastExpr', 'CStyleCastExpr', 'ConstantExpr')


def strip(n):
    while n.get('kind') in TRANSPARENT and n.get('inner'):
        n = n['inner'][0]
    return n


def kids(n):
    return [c for c in n.get('inner', []) if c.get('kind') not in ('FullComment',)]


class TU:
    """One translation unit: enum values, function definitions."""

    def __init__(self, ast):
        self.enums = {}
        self.funcs = {}      # name -> FunctionDecl with body
        self.protos = {}     # name -> FunctionDecl (any)
        self.globals = {}
        for d in ast['inner']:
            k = d.get('kind')
            if k == 'EnumDecl':
                nxt = 0
                for c in kids(d):
                    if c.get('kind') != 'EnumConstantDecl':
                        continue
                    v = None
                    for e in kids(c):
                        v = self.const(e)
                    if v is None:
                        v = nxt
                    self.enums[c['name']] = v
                    nxt = v + 1
            elif k == 'FunctionDecl':
                self.protos.setdefault(d['name'], d)
                if any(c.get('kind') == 'CompoundStmt' for c in kids(d)):
                    self.funcs[d['name']] = d
                    self.protos[d['name']] = d
            elif k == 'VarDecl':
                self.globals[d['name']] = d

    def const(self, n):
        """Integer value of a constant expression, or None."""
        if n.get('kind') == 'ConstantExpr' and 'value' in n:
            return int(n['value'])
        n = strip(n)
        k = n.get('kind')
        if k == 'IntegerLiteral':
            return int(n['value'])
        if k == 'DeclRefExpr' and n['referencedDecl']['kind'] == 'EnumConstantDecl':
            return self.enums.get(n['referencedDecl']['name'])
        if k == 'UnaryOperator' and n.get('opcode') in ('-', '~', '+'):
            v = self.const(kids(n)[0])
            if v is None:
                return None
            return {'-': -v, '~': ~v, '+': v}[n['opcode']]
        if k == 'BinaryOperator':
            a, b = (self.const(c) for c in kids(n))
            if a is None or b is None:
                return None
            op = n['opcode']
            try:
                return {'+': a + b, '-': a - b, '*': a * b, '<<': a << b, '>>': a >> b,
                        '|': a | b, '&': a & b}[op]
            except KeyError:
                return None
        return None


def src(n):
    """Deterministic C-like rendering of an AST node (for `opaque`)."""
    k = n.get('kind')
    c = kids(n)
    if k in ('ImplicitCastExpr', 'ConstantExpr'):
        return src(c[0])
    if k == 'ParenExpr':
        return '(' + src(c[0]) + ')'
    if k == 'CStyleCastExpr':
        return '(' + n['type']['qualType'] + ')' + src(c[0])
    if k == 'IntegerLiteral':
        return n['value']
    if k == 'DeclRefExpr':
        return n['referencedDecl']['name']
    if k == 'MemberExpr':
        return src(c[0]) + ('->' if n.get('isArrow') else '.') + n['name']
    if k == 'UnaryOperator':
        return (src(c[0]) + n['opcode']) if n.get('isPostfix') else (n['opcode'] + src(c[0]))
    if k in ('BinaryOperator', 'CompoundAssignOperator'):
        return src(c[0]) + ' ' + n['opcode'] + ' ' + src(c[1])
    if k == 'CallExpr':
        return src(c[0]) + '(' + ', '.join(src(x) for x in c[1:]) + ')'
    if k == 'ReturnStmt':
        return 'return' + (' ' + src(c[0]) if c else '') + ';'
    if k == 'IfStmt':
        s = 'if (' + src(c[0]) + ') ' + src(c[1])
        if len(c) > 2:
            s += ' else ' + src(c[2])
        return s
    if k == 'CompoundStmt':
        return '{ ' + ' '.join(src(x) for x in c) + ' }'
    if k == 'DeclStmt':
        return ' '.join(src(x) for x in c)
    if k == 'VarDecl':
        return n['type']['qualType'] + ' ' + n['name'] + (' = ' + src(c[0]) if c else '') + ';'
    return '<' + str(k) + '>' + ''.join('[' + src(x) + ']' for x in c)


def stmt_src(n):
    s = src(n)
    if n.get('kind') in ('CallExpr', 'BinaryOperator', 'UnaryOperator', 'CompoundAssignOperator'):
        s += ';'
    return s


# ------------------------------------------------------------------------------------------------
# Translation of one function
# ------------------------------------------------------------------------------------------------
CMP = {'<': 'lt', '<=': 'le', '==': 'eq', '!=': 'ne', '>': 'gt', '>=': 'ge'}
FLIP = {'lt': 'gt', 'le': 'ge', 'eq': 'eq', 'ne': 'ne', 'gt': 'lt', 'ge': 'le'}


def param_kind(qual):
    """pointer-in / pointer-out / scalar from the declared type."""
    q = qual.strip()
    if '*' not in q:
        return 'scalar'
    pointee = q[:q.rindex('*')].strip()
    # `const T *` and `T const *`: the pointee is const.  `T **` is an output slot.
    if pointee.endswith('*'):
        return 'ptrOut'
    if re.search(r'\bconst\b', pointee):
        return 'ptrIn'
    return 'ptrOut'


class FnTranslator:
    def __init__(self, tu, fn, syms):
        self.tu = tu
        self.fn = fn
        self.syms = syms            # shared list of internal symbol names
        self.params = [c for c in kids(fn) if c.get('kind') == 'ParmVarDecl']
        self.pidx = {p['name']: i for i, p in enumerate(self.params)}
        self.pkind = [param_kind(p['type']['qualType']) for p in self.params]
        self.alias = {}             # local variable -> i, meaning it holds `*param_i`

    # -- symbols ---------------------------------------------------------------------------------
    def sym(self, name):
        if name not in self.syms:
            self.syms.append(name)
        return self.syms.index(name)

    # -- expressions -----------------------------------------------------------------------------
    def param_ref(self, n):
        n = strip(n)
        if n.get('kind') == 'DeclRefExpr' and n['referencedDecl']['kind'] == 'ParmVarDecl':
            return self.pidx.get(n['referencedDecl']['name'])
        return None

    def is_null(self, n):
        return self.tu.const(n) == 0

    def sexpr(self, n):
        n = strip(n)
        i = self.param_ref(n)
        if i is not None:
            if self.pkind[i] != 'scalar':
                raise NoFit('pointer used as integer')
            return ('arg', i)
        if n.get('kind') == 'BinaryOperator' and n.get('opcode') in ('&', '%'):
            a, b = kids(n)
            k = self.tu.const(b)
            if k is None or k < 0:
                raise NoFit('non-constant mask')
            return ('band' if n['opcode'] == '&' else 'mod', self.sexpr(a), k)
        raise NoFit('scalar expression')

    def cond(self, n):
        n = strip(n)
        k = n.get('kind')
        if k == 'UnaryOperator' and n.get('opcode') == '!':
            inner = kids(n)[0]
            i = self.param_ref(inner)
            if i is not None and self.pkind[i] != 'scalar':
                return ('isNull', i)
            return ('not', self.cond(inner))
        if k == 'BinaryOperator':
            op = n['opcode']
            a, b = kids(n)
            if op == '&&':
                return ('and', self.cond(a), self.cond(b))
            if op == '||':
                return ('or', self.cond(a), self.cond(b))
            if op in CMP:
                ia, ib = self.param_ref(a), self.param_ref(b)
                # pointer compared with NULL
                for (i, other) in ((ia, b), (ib, a)):
                    if i is not None and self.pkind[i] != 'scalar':
                        if op in ('==', '!=') and self.is_null(other):
                            c = ('isNull', i)
                            return c if op == '==' else ('not', c)
                        raise NoFit('pointer comparison')
                kb = self.tu.const(b)
                if kb is not None and kb >= 0:
                    return ('cmp', CMP[op], self.sexpr(a), kb)
                ka = self.tu.const(a)
                if ka is not None and ka >= 0:
                    return ('cmp', FLIP[CMP[op]], self.sexpr(b), ka)
        raise NoFit('condition')

    def call_parts(self, n):
        """(callee name, [Arg]) of a CallExpr of a named function."""
        n = strip(n)
        if n.get('kind') != 'CallExpr':
            raise NoFit('not a call')
        c = kids(n)
        f = strip(c[0])
        if f.get('kind') != 'DeclRefExpr' or f['referencedDecl']['kind'] != 'FunctionDecl':
            raise NoFit('indirect call')
        args = []
        for a in c[1:]:
            i = self.param_ref(a)
            if i is not None:
                args.append(('param', i))
                continue
            v = self.tu.const(a)
            if v is None:
                raise NoFit('call argument')
            args.append(('const', v))
        return f['referencedDecl']['name'], args

    def ret_code(self, n):
        """Constant returned by `return k;` or `{ return k; }`."""
        if n.get('kind') == 'CompoundStmt':
            c = kids(n)
            if len(c) != 1:
                raise NoFit('then-branch')
            n = c[0]
        if n.get('kind') != 'ReturnStmt' or not kids(n):
            raise NoFit('then-branch is not a return')
        v = self.tu.const(kids(n)[0])
        if v is None:
            raise NoFit('non-constant return')
        return v

    def ptr_off(self, n):
        """pointer parameter, optionally `+ constant`."""
        i = self.param_ref(n)
        if i is not None:
            return i, 0
        n = strip(n)
        if n.get('kind') == 'BinaryOperator' and n.get('opcode') == '+':
            a, b = kids(n)
            i, k = self.param_ref(a), self.tu.const(b)
            if i is not None and k is not None and k >= 0:
                return i, k
        raise NoFit('pointer expression')

    def deref_out(self, n):
        """`*param` (an output slot) -> index."""
        n = strip(n)
        if n.get('kind') == 'UnaryOperator' and n.get('opcode') == '*':
            i = self.param_ref(kids(n)[0])
            if i is not None:
                return i
        return None

    def ctx_value(self, n):
        """Expression denoting the context returned by the callee: `*out` or an alias of it."""
        o = self.deref_out(n)
        if o is not None:
            return o
        m = strip(n)
        if m.get('kind') == 'DeclRefExpr' and m['referencedDecl']['name'] in self.alias:
            return self.alias[m['referencedDecl']['name']]
        return None

    def error_field_of(self, n):
        """`X->error` -> out index of X, else None."""
        n = strip(n)
        if n.get('kind') == 'MemberExpr' and n.get('name') == 'error' and n.get('isArrow'):
            return self.ctx_value(kids(n)[0])
        return None

    # -- callee guards (ifCallNegRet) --------------------------------------------------------------
    def callee_guards(self, name, args):
        fn = self.tu.funcs.get(name)
        if fn is None:
            raise NoFit('callee %s is not defined in this file' % name)
        sub = FnTranslator(self.tu, fn, self.syms)
        body = [c for c in kids(fn) if c.get('kind') == 'CompoundStmt'][0]
        stmts = kids(body)
        guards, pos = [], 0
        for st in stmts:
            if st.get('kind') == 'DeclStmt' and all(not kids(v) for v in kids(st)):
                pos += 1
                continue        # uninitialised locals
            if st.get('kind') == 'IfStmt' and len(kids(st)) == 2:
                try:
                    c = sub.cond(kids(st)[0])
                    k = sub.ret_code(kids(st)[1])
                except NoFit:
                    break
                guards.append((c, k))
                pos += 1
                continue
            break
        # every other return of the callee must be a non-negative constant

        def returns(n, acc):
            if n.get('kind') == 'ReturnStmt':
                acc.append(n)
            for c in kids(n):
                returns(c, acc)
        rest = []
        for st in stmts[pos:]:
            returns(st, rest)
        for r in rest:
            v = self.tu.const(kids(r)[0]) if kids(r) else None
            if v is None or v < 0:
                raise NoFit('callee %s may fail after its guards' % name)
        # substitute callee parameters by the wrapper's actual arguments

        def subst_s(e):
            if e[0] == 'arg':
                a = args[e[1]]
                if a[0] != 'param':
                    raise NoFit('constant actual argument in callee guard')
                return ('arg', a[1])
            return (e[0], subst_s(e[1]), e[2])

        def subst_c(c):
            if c[0] == 'isNull':
                a = args[c[1]]
                if a[0] != 'param':
                    raise NoFit('constant actual argument in callee guard')
                return ('isNull', a[1])
            if c[0] == 'cmp':
                return ('cmp', c[1], subst_s(c[2]), c[3])
            if c[0] == 'not':
                return ('not', subst_c(c[1]))
            return (c[0], subst_c(c[1]), subst_c(c[2]))
        return [(subst_c(c), k) for c, k in guards]

    # -- statements ------------------------------------------------------------------------------
    def map_ctx_error(self, st):
        """Recognise the context-error mapping of the hash managers."""
        c = kids(st)
        if len(c) != 2 or c[1].get('kind') != 'CompoundStmt':
            raise NoFit('mapCtxError shape')
        cond = strip(c[0])
        guarded, inp, out = False, None, None
        errtest = cond
        if cond.get('kind') == 'BinaryOperator' and cond.get('opcode') == '&&':
            a, b = (strip(x) for x in kids(cond))
            if a.get('kind') == 'BinaryOperator' and a.get('opcode') == '==':
                l, r = kids(a)
                o, i = self.ctx_value(l), self.param_ref(r)
                if o is None or i is None:
                    raise NoFit('mapCtxError guard')
                guarded, inp, out = True, i, o
                errtest = b
            else:
                raise NoFit('mapCtxError guard')
        if not (errtest.get('kind') == 'BinaryOperator' and errtest.get('opcode') == '!='):
            raise NoFit('mapCtxError error test')
        l, r = kids(errtest)
        o2 = self.error_field_of(l)
        if o2 is None or self.tu.const(r) != 0:
            raise NoFit('mapCtxError error test')
        if out is None:
            out = o2
        if o2 != out:
            raise NoFit('mapCtxError mixes contexts')
        if inp is None:
            # unguarded form: the submitted context is the one passed to the callee at position 1
            inp = self.last_assign_ctx_in
            if inp is None:
                raise NoFit('mapCtxError without a submit')
        mapping = []
        local = dict(self.alias)
        for s in kids(c[1]):
            if s.get('kind') == 'DeclStmt':
                for v in kids(s):
                    init = kids(v)
                    o = self.ctx_value(init[0]) if init else None
                    if o != out:
                        raise NoFit('mapCtxError local')
                    self.alias[v['name']] = out
                continue
            if s.get('kind') == 'IfStmt' and len(kids(s)) == 2:
                t = strip(kids(s)[0])
                if t.get('kind') == 'BinaryOperator' and t.get('opcode') == '==':
                    l, r = kids(t)
                    if self.error_field_of(l) == out and self.tu.const(r) is not None:
                        mapping.append((self.tu.const(r), self.ret_code(kids(s)[1])))
                        continue
            self.alias = local
            raise NoFit('mapCtxError body')
        self.alias = local
        return ('mapCtxError', out, inp, guarded, mapping)

    last_assign_ctx_in = None

    def assign_out(self, out, callnode):
        name, args = self.call_parts(callnode)
        # remember which parameter is the submitted context (second actual argument of submit)
        self.last_assign_ctx_in = args[1][1] if len(args) > 1 and args[1][0] == 'param' else None
        return ('assignOut', out, self.sym(name), args)

    def stmt(self, st, nxt):
        """Translate `st`; `nxt` is the following statement (for the two-statement SM3 idiom).
        Returns (translated statement, number of source statements consumed)."""
        k = st.get('kind')
        c = kids(st)
        if k == 'IfStmt':
            if len(c) != 2:
                raise NoFit('if with else')
            cond = strip(c[0])
            # self-test gate
            if cond.get('kind') == 'CallExpr':
                name, args = self.call_parts(cond)
                if name == 'isal_self_tests' and not args:
                    return ('selfTestGate', self.ret_code(c[1])), 1
                raise NoFit('call used as condition')
            if cond.get('kind') == 'BinaryOperator' and cond.get('opcode') == '&&':
                # conjunction of memcmp(...) == 0 over the same two objects (XTS same-key check)
                def conj(e):
                    e = strip(e)
                    if e.get('kind') == 'BinaryOperator' and e.get('opcode') == '&&':
                        a_, b_ = kids(e)
                        return conj(a_) + conj(b_)
                    return [e]
                parts = conj(cond)
                cmps = []
                for e in parts:
                    if not (e.get('kind') == 'BinaryOperator' and e.get('opcode') == '=='):
                        cmps = None
                        break
                    l, r = kids(e)
                    if strip(l).get('kind') != 'CallExpr' or self.tu.const(r) != 0:
                        cmps = None
                        break
                    f = strip(kids(strip(l))[0])
                    if f.get('referencedDecl', {}).get('name') != 'memcmp':
                        cmps = None
                        break
                    a = kids(strip(l))[1:]
                    (pa, oa), (pb, ob) = self.ptr_off(a[0]), self.ptr_off(a[1])
                    n = self.tu.const(a[2])
                    if n is None:
                        raise NoFit('memcmp length')
                    cmps.append((pa, oa, pb, ob, n))
                if cmps and all((x[0], x[2]) == (cmps[0][0], cmps[0][2]) for x in cmps):
                    pa, oa, pb, ob, n = cmps[0]
                    more = [(x[1], x[3], x[4]) for x in cmps[1:]]
                    return ('memcmpGuard', pa, oa, pb, ob, n, self.ret_code(c[1]), more), 1
            if cond.get('kind') == 'BinaryOperator' and cond.get('opcode') in CMP:
                l, r = kids(cond)
                if strip(l).get('kind') == 'CallExpr':
                    f = strip(kids(strip(l))[0])
                    name = f.get('referencedDecl', {}).get('name')
                    if name == 'memcmp' and cond['opcode'] == '==' and self.tu.const(r) == 0:
                        a = kids(strip(l))[1:]
                        (pa, oa), (pb, ob) = self.ptr_off(a[0]), self.ptr_off(a[1])
                        n = self.tu.const(a[2])
                        if n is None:
                            raise NoFit('memcmp length')
                        return ('memcmpGuard', pa, oa, pb, ob, n, self.ret_code(c[1])), 1
                    if cond['opcode'] == '<' and self.tu.const(r) == 0:
                        name, args = self.call_parts(l)
                        gs = self.callee_guards(name, args)
                        return ('ifCallNegRet', self.sym(name), args, gs, self.ret_code(c[1])), 1
                    raise NoFit('call in comparison')
            if c[1].get('kind') == 'CompoundStmt' and len(kids(c[1])) != 1:
                return self.map_ctx_error(st), 1
            try:
                return ('ifRet', self.cond(cond), self.ret_code(c[1])), 1
            except NoFit:
                if c[1].get('kind') == 'CompoundStmt':
                    return self.map_ctx_error(st), 1
                raise
        if k == 'CallExpr':
            name, args = self.call_parts(st)
            return ('call', self.sym(name), args), 1
        if k == 'BinaryOperator' and st.get('opcode') == '=':
            out = self.deref_out(c[0])
            if out is not None and strip(c[1]).get('kind') == 'CallExpr':
                return self.assign_out(out, c[1]), 1
            raise NoFit('assignment')
        if k == 'DeclStmt' and len(c) == 1 and kids(c[0]) and nxt is not None:
            # T *cp = f(...);  *out = cp;
            v = c[0]
            if strip(kids(v)[0]).get('kind') == 'CallExpr' and nxt.get('kind') == 'BinaryOperator' \
                    and nxt.get('opcode') == '=':
                l, r = kids(nxt)
                out = self.deref_out(l)
                rr = strip(r)
                if out is not None and rr.get('kind') == 'DeclRefExpr' \
                        and rr['referencedDecl']['name'] == v['name']:
                    s = self.assign_out(out, kids(v)[0])
                    self.alias[v['name']] = out
                    return s, 2
            raise NoFit('declaration')
        if k == 'ReturnStmt':
            if not c:
                raise NoFit('return;')
            v = self.tu.const(c[0])
            if v is not None:
                return ('retConst', v), 1
            e = strip(c[0])
            if e.get('kind') == 'CallExpr':
                name, args = self.call_parts(e)
                return ('retCall', self.sym(name), args), 1
            if e.get('kind') == 'DeclRefExpr' and e['referencedDecl']['kind'] == 'VarDecl' \
                    and e['referencedDecl']['name'] in self.tu.globals:
                return ('retGlobal', self.sym(e['referencedDecl']['name'])), 1
            raise NoFit('return expression')
        raise NoFit(str(k))

    def translate(self):
        body = [c for c in kids(self.fn) if c.get('kind') == 'CompoundStmt'][0]
        stmts = kids(body)
        out, i = [], 0
        while i < len(stmts):
            nxt = stmts[i + 1] if i + 1 < len(stmts) else None
            try:
                s, used = self.stmt(stmts[i], nxt)
            except NoFit:
                s, used = ('opaque', stmt_src(stmts[i])), 1
            out.append(s)
            i += used
        return out

    def entry(self, relfile):
        qt = self.fn['type']['qualType']
        ret = qt[:qt.index('(')].strip()
        return {
            'name': self.fn['name'], 'file': relfile, 'ret': ret,
            'params': [{'name': p['name'], 'kind': self.pkind[i], 'ctype': p['type']['qualType']}
                       for i, p in enumerate(self.params)],
            'body': self.translate(),
        }


# ------------------------------------------------------------------------------------------------
# Lean emission
# ------------------------------------------------------------------------------------------------
def lint(v):
    return str(v) if v >= 0 else '(%d)' % v


def l_sexpr(e):
    if e[0] == 'arg':
        return '(.arg %d)' % e[1]
    return '(.%s %s %d)' % (e[0], l_sexpr(e[1]), e[2])


def l_cond(c):
    if c[0] == 'isNull':
        return '(.isNull %d)' % c[1]
    if c[0] == 'cmp':
        return '(.cmp .%s %s %d)' % (c[1], l_sexpr(c[2]), c[3])
    if c[0] == 'not':
        return '(.not %s)' % l_cond(c[1])
    return '(.%s %s %s)' % (c[0], l_cond(c[1]), l_cond(c[2]))


def l_args(args):
    return '[' + ', '.join('.%s %s' % (k, lint(v)) for k, v in args) + ']'


def l_str(s):
    return '"' + s.replace('\\', '\\\\').replace('"', '\\"').replace('\n', ' ') + '"'


def l_stmt(s):
    t = s[0]
    if t == 'ifRet':
        return '.ifRet %s %s' % (l_cond(s[1]), lint(s[2]))
    if t == 'selfTestGate':
        return '.selfTestGate %s' % lint(s[1])
    if t == 'memcmpGuard':
        more = s[7] if len(s) > 7 else []
        return '.memcmpGuard %d %d %d %d %d [%s] %s' % (s[1], s[2], s[3], s[4], s[5],
                                                        ', '.join('(%d, %d, %d)' % m for m in more), lint(s[6]))
    if t in ('call', 'retCall'):
        return '.%s %d %s' % (t, s[1], l_args(s[2]))
    if t == 'assignOut':
        return '.assignOut %d %d %s' % (s[1], s[2], l_args(s[3]))
    if t == 'ifCallNegRet':
        gs = '[' + ', '.join('(%s, %s)' % (l_cond(c), lint(k)) for c, k in s[3]) + ']'
        return '.ifCallNegRet %d %s %s %s' % (s[1], l_args(s[2]), gs, lint(s[4]))
    if t == 'mapCtxError':
        m = '[' + ', '.join('(%s, %s)' % (lint(a), lint(b)) for a, b in s[4]) + ']'
        return '.mapCtxError %d %d %s %s' % (s[1], s[2], 'true' if s[3] else 'false', m)
    if t == 'retConst':
        return '.retConst %s' % lint(s[1])
    if t == 'retGlobal':
        return '.retGlobal %d' % s[1]
    if t == 'opaque':
        return '.opaque %s' % l_str(s[1])
    raise ValueError(t)


def l_entry(e):
    ps = ', '.join('⟨%s, .%s, %s⟩' % (l_str(p['name']), p['kind'], l_str(p['ctype']))
                   for p in e['params'])
    body = ',\n      '.join(l_stmt(s) for s in e['body'])
    return ('  { name := %s, file := %s, retInt := %s,\n    params := [%s],\n    body := [\n      %s] }'
            % (l_str(e['name']), l_str(e['file']), 'true' if e['ret'] == 'int' else 'false', ps, body))


def emit_lean(path, ns, build, defines, isal, legacy, pairs, syms, enums):
    with open(path, 'w') as f:
        f.write('/-\n  GENERATED by tools/gen_wrappers.py - do not edit.\n')
        f.write('  Build: %s   (%s)\n' % (build, ' '.join(defines)))
        f.write('  %d isal_ entry points, %d legacy entry points, %d legacy/isal_ pairs, %d opaque statements.\n-/\n'
                % (len(isal), len(legacy), len(pairs),
                   sum(1 for e in isal + legacy for s in e['body'] if s[0] == 'opaque')))
        f.write('import IsalVerif.Impl.Wrapper\n\nnamespace IsalVerif.Gen.%s\nopen IsalVerif.Wrapper\n\n' % ns)
        f.write('/-- Internal symbols, indexed by the `sym` fields below. -/\n')
        f.write('def symNames : List String := [\n  ' + ',\n  '.join(l_str(s) for s in syms) + ']\n\n')
        f.write('/-- `ISAL_CRYPTO_ERROR` as resolved from include/isal_crypto_api.h (name, value). -/\n')
        f.write('def errorCodes : List (String × Int) := [\n  ' +
                ',\n  '.join('(%s, %s)' % (l_str(k), lint(v)) for k, v in enums) + ']\n\n')
        f.write('/-- The `isal_*` entry points, in source order. -/\n')
        f.write('def entries : List Entry := [\n' + ',\n'.join(l_entry(e) for e in isal) + ']\n\n')
        f.write('/-- The deprecated legacy entry points. -/\n')
        f.write('def legacy : List Entry := [\n' + ',\n'.join(l_entry(e) for e in legacy) + ']\n\n')
        f.write('/-- (legacy name, isal_ name) as stated by the `ISAL_DEPRECATED` macros of the headers. -/\n')
        f.write('def pairs : List (String × String) := [\n  ' +
                ',\n  '.join('(%s, %s)' % (l_str(a), l_str(b)) for a, b in pairs) + ']\n\n')
        f.write('end IsalVerif.Gen.%s\n' % ns)


# ------------------------------------------------------------------------------------------------
# C emission for the harness
# ------------------------------------------------------------------------------------------------
def c_size(qual):
    q = qual.replace('const', '').strip()
    if '*' in q:
        return 8
    table = {'uint64_t': 8, 'long': 8, 'unsigned long': 8, 'size_t': 8, 'int64_t': 8,
             'uint32_t': 4, 'int': 4, 'unsigned int': 4, 'int32_t': 4, 'unsigned': 4,
             'ISAL_HASH_CTX_FLAG': 4, 'uint16_t': 2, 'uint8_t': 1}
    if q in table:
        return table[q]
    raise SystemExit('gen_wrappers: unknown size of C type %r' % qual)


def emit_c(outdir, builds, callee_protos, wrappable, same_file):
    """gen_api.h: one typed call stub per entry point, the parameter table, and (under
    WRAP_STUBS) one recording stub per interposable internal symbol."""
    isal = builds['default']['isal']
    legacy = builds['default']['legacy']
    pairs = builds['default']['pairs']
    syms = builds['default']['syms']
    fsyms = builds['fips']['syms']
    with open(os.path.join(HARNESS_OUT, 'gen_api.h'), 'w') as f:
        f.write('/* GENERATED by tools/gen_wrappers.py - do not edit. */\n')
        for h in PUBLIC_HEADERS:
            f.write('#include "%s"\n' % h)
        f.write('\n#define K_PTR_IN 0\n#define K_PTR_OUT 1\n#define K_SCALAR 2\n\n')
        for e in isal + legacy:
            n = len(e['params'])
            args = ', '.join(
                '(%s)%sv[%d]' % (p['ctype'], '(uintptr_t)' if p['kind'] != 'scalar' else '', i)
                for i, p in enumerate(e['params']))
            call = '%s(%s)' % (e['name'], args)
            f.write('static uint64_t call_%s(const uint64_t *v) { (void)v; ' % e['name'])
            if e['ret'] == 'void':
                f.write('%s; return 0; }\n' % call)
            elif '*' in e['ret']:
                f.write('return (uint64_t)(uintptr_t)%s; }\n' % call)
            elif e['ret'] == 'int':
                f.write('return (uint64_t)(int64_t)%s; }\n' % call)
            else:
                f.write('return (uint64_t)%s; }\n' % call)
        f.write('\nstruct api_param { const char *name; int kind; int size; };\n')
        f.write('/* real_callee: the internal function it calls lives in the same object and cannot be '
                'interposed */\n')
        f.write('struct api_entry { const char *name; int legacy; int ret_int; int real_callee; int nparams; '
                'struct api_param p[12]; uint64_t (*call)(const uint64_t *); };\n\n')
        f.write('static const struct api_entry api_entries[] = {\n')
        for lg, lst in ((0, isal), (1, legacy)):
            for e in lst:
                ps = ', '.join('{"%s", %s, %d}' % (
                    p['name'], {'ptrIn': 'K_PTR_IN', 'ptrOut': 'K_PTR_OUT', 'scalar': 'K_SCALAR'}[p['kind']],
                    c_size(p['ctype'])) for p in e['params'])
                real = 0
                for st in e['body']:
                    if st[0] in ('call', 'retCall', 'ifCallNegRet') and syms[st[1]] in same_file:
                        real = 1
                    if st[0] == 'assignOut' and syms[st[2]] in same_file:
                        real = 1
                f.write('  {"%s", %d, %d, %d, %d, {%s}, call_%s},\n'
                        % (e['name'], lg, 1 if e['ret'] == 'int' else 0, real, len(e['params']), ps,
                           e['name']))
        f.write('};\n#define N_API_ENTRIES (sizeof(api_entries) / sizeof(api_entries[0]))\n\n')
        f.write('static const char *const api_pairs[][2] = {\n')
        for a, b in pairs:
            f.write('  {"%s", "%s"},\n' % (a, b))
        f.write('};\n#define N_API_PAIRS (sizeof(api_pairs) / sizeof(api_pairs[0]))\n\n')
        # symbol ids (default and fips tables number the symbols independently)
        f.write('static const char *const sym_names_default[] = {%s};\n' % ', '.join('"%s"' % s for s in syms))
        f.write('static const char *const sym_names_fips[] = {%s};\n\n' % ', '.join('"%s"' % s for s in fsyms))
        f.write('#ifdef WRAP_STUBS\n')
        f.write('/* Recording stubs: `ld --wrap=SYM` sends the wrappers\' calls here.  Every argument is\n'
                '   taken as a 64-bit integer register/stack slot (SysV x86-64) and masked to the width of\n'
                '   the callee\'s declared parameter type. */\n')
        f.write('uint64_t stub_record(const char *sym, int n, const uint64_t *args);\n')
        for s in wrappable:
            sizes = callee_protos[s]
            n = len(sizes)
            decl = ', '.join('uint64_t a%d' % i for i in range(n)) or 'void'
            f.write('uint64_t __wrap_%s(%s) { ' % (s, decl))
            if n:
                f.write('uint64_t a[%d] = {%s}; ' % (n, ', '.join(
                    'a%d%s' % (i, '' if sz == 8 else ' & 0x%xULL' % ((1 << (8 * sz)) - 1))
                    for i, sz in enumerate(sizes))))
                f.write('return stub_record("%s", %d, a); }\n' % (s, n))
            else:
                f.write('return stub_record("%s", 0, 0); }\n' % s)
        f.write('#endif /* WRAP_STUBS */\n')
    with open(os.path.join(HARNESS_OUT, 'gen_wrap_syms.txt'), 'w') as f:
        for s in wrappable:
            f.write(s + '\n')
    # callees that live in the wrapper's own object: run for real, told to `wrap_model check`
    with open(os.path.join(HARNESS_OUT, 'gen_unwrapped_syms.txt'), 'w') as f:
        for s in sorted(same_file):
            f.write(s + '\n')


# ------------------------------------------------------------------------------------------------
def main():
    ap = argparse.ArgumentParser()
    here = os.path.dirname(os.path.abspath(__file__))
    ap.add_argument('--repo', default='/repo')
    ap.add_argument('--out', default=os.path.dirname(here))
    ap.add_argument('--quiet', action='store_true')
    ap.add_argument('--harness', default=None, help='directory for gen_api.h and the symbol lists')
    a = ap.parse_args()
    global HARNESS_OUT
    HARNESS_OUT = a.harness or os.path.join(a.out, 'harness')

    pairs = legacy_pairs(a.repo)
    legacy_names = [l for l, _ in pairs]
    builds = {}
    callee_protos = {}      # internal symbol -> list of parameter sizes
    same_file = set()       # internal symbols defined in the caller's own file (cannot be --wrap'ed)
    for build, defines in DEFINES.items():
        syms, isal, legacy, enums = [], [], [], None
        for rel in WRAPPER_FILES:
            tu = TU(clang_ast(a.repo, rel, defines))
            if enums is None:
                enums = sorted(((k, v) for k, v in tu.enums.items() if k.startswith('ISAL_CRYPTO_ERR_')),
                               key=lambda kv: kv[1])
            for name, fn in tu.funcs.items():
                if name.startswith('isal_'):
                    dst = isal
                elif name in legacy_names:
                    dst = legacy
                else:
                    continue
                tr = FnTranslator(tu, fn, syms)
                e = tr.entry(rel)
                dst.append(e)
                if dst is isal:
                    # callees defined in the isal_ wrapper's own object cannot be interposed
                    for st in e['body']:
                        if st[0] in ('call', 'retCall', 'ifCallNegRet') and syms[st[1]] in tu.funcs:
                            same_file.add(syms[st[1]])
                        if st[0] == 'assignOut' and syms[st[2]] in tu.funcs:
                            same_file.add(syms[st[2]])
            for s in syms:
                if s in tu.protos and s not in callee_protos:
                    ps = [c for c in kids(tu.protos[s]) if c.get('kind') == 'ParmVarDecl']
                    callee_protos[s] = [c_size(p['type']['qualType']) for p in ps]
        present = {e['name'] for e in isal} | {e['name'] for e in legacy}
        builds[build] = {'isal': isal, 'legacy': legacy, 'syms': syms, 'enums': enums,
                         'pairs': [(l, i) for l, i in pairs if l in present]}
        ns = 'WrappersDefault' if build == 'default' else 'WrappersFips'
        os.makedirs(os.path.join(a.out, 'IsalVerif', 'Gen'), exist_ok=True)
        emit_lean(os.path.join(a.out, 'IsalVerif', 'Gen', ns + '.lean'), ns, build, defines,
                  isal, legacy, builds[build]['pairs'], syms, enums)

    # internal functions (not globals such as isal_crypto_version) that live in another object
    allsyms = []
    for b in builds.values():
        for s in b['syms']:
            if s not in allsyms:
                allsyms.append(s)
    wrappable = [s for s in allsyms if s in callee_protos and s not in same_file
                 and not s.startswith('isal_crypto_version')]
    os.makedirs(HARNESS_OUT, exist_ok=True)
    emit_c(a.out, builds, callee_protos, wrappable, same_file)

    summary = {}
    for build, b in builds.items():
        opq = [(e['name'], s[1]) for e in b['isal'] + b['legacy'] for s in e['body'] if s[0] == 'opaque']
        summary[build] = {'isal': len(b['isal']), 'legacy': len(b['legacy']), 'pairs': len(b['pairs']),
                          'symbols': len(b['syms']), 'opaque': len(opq),
                          'opaque_in': sorted({n for n, _ in opq})}
    summary['wrappable'] = len(wrappable)
    summary['same_file_callees'] = sorted(same_file)
    with open(os.path.join(HARNESS_OUT, 'gen_summary.json'), 'w') as f:
        json.dump(summary, f, indent=1)
    if not a.quiet:
        print(json.dumps(summary, indent=1))


if __name__ == '__main__':
    main()
