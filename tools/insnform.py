#!/usr/bin/env python3
"""Instruction-form validation of tools/x86tab.py (C19 tie, DESIGN §3.4b).

    insnform.py <build dir> [--samples K]

For every distinct (mnemonic, operand shape) among the CFG-reachable, non-control-flow instructions of
the library, K sampled instances (raw bytes from the object files) are executed in isolation by
harness/insnform.c; a GPR that changes without being in the write mask declared by the table is a
violation.  Skipped: stores to rip-relative locations (they would patch the code buffer), `leave`,
32-bit address-size forms.
"""
import os, sys, subprocess, collections

HERE = os.path.dirname(os.path.abspath(__file__))
ROOT = os.path.dirname(HERE)
sys.path.insert(0, HERE)
import x86abs_core as X
import x86tab
from x86tab import Op, splitops, RSP, RBP


def spec(ins):
    ef = x86tab.effect(ins)
    k = ef.kind
    if k in ("unsupported", "forbidden", "storestatic", "leave"):
        return None
    ops = [Op(o) for o in splitops(ins.ops)]
    if any(o.kind == "?" or o.addr32 for o in ops):
        return None
    bmask = imask = 0
    for o in ops:
        if o.kind == "m":
            if o.seg in ("fs", "gs"):
                continue
            if o.base is not None:
                bmask |= 1 << o.base
            if o.index is not None and o.index >= 0:
                imask |= 1 << o.index
            if o.vecidx:
                return None
    flags = "-"
    rsp = "s"
    mask = ef.w
    if k == "plain":
        pass
    elif k in ("movrr", "lea", "load"):
        mask = 1 << ef.a
    elif k == "pop":
        mask, rsp = 1 << ef.a, "q"
    elif k in ("push", "pushany"):
        mask, rsp = 0, "p"
    elif k in ("addrsp", "andrsp"):
        mask, rsp = 0, "a"
    elif k in ("store", "storek", "storeidx"):
        mask = ef.w
    if mask >> RSP & 1:
        rsp = "a"
    mn = ins.mnem
    if mn in ("movs", "stos", "lods", "scas", "cmps"):
        bmask |= (1 << 6) | (1 << 7)
        flags = "r"
    if mn == "xgetbv":
        flags = "x"
    if mn in ("div", "idiv"):
        flags = "d"
    if ins.reloc and k != "plain" and "rip" in ins.ops and k in ("store", "storek"):
        return None
    shape = (mn, tuple((o.kind, o.width if o.kind == "g" else (o.size if o.kind == "m" else 0),
                        (o.base is not None, o.index is not None, o.rip) if o.kind == "m" else ()) for o in ops), tuple(ins.prefix))
    line = "%s %x %x %x %s %s %s" % (ins.raw.hex(), mask, bmask & ~(1 << RSP), imask & ~(1 << RSP), rsp, flags,
                                    (" ".join(ins.prefix + [mn]) + " " + ins.ops).strip())
    return shape, line


def main():
    build = sys.argv[1]
    K = 3
    if "--samples" in sys.argv:
        K = int(sys.argv[sys.argv.index("--samples") + 1])
    L = X.load_archive(build)
    groups = collections.OrderedDict()
    seen = set()
    for f in L.funcs:
        for a in sorted(f.insns):
            if f.edges.get(a, ("bad",))[0] != "fall" or (f.key[0], a) in seen:
                continue
            seen.add((f.key[0], a))
            s = spec(f.insns[a])
            if s is None:
                continue
            g = groups.setdefault(s[0], [])
            if len(g) < K and s[1] not in g:
                g.append(s[1])
    lines = [l for g in groups.values() for l in g]
    exe = os.path.join(build, "insnform")
    obj = os.path.join(build, "formtramp.o")
    r = subprocess.run(["nasm", "-f", "elf64", os.path.join(ROOT, "harness", "formtramp.asm"), "-o", obj], capture_output=True, text=True)
    r2 = subprocess.run(["gcc", "-O1", "-g", "-o", exe, os.path.join(ROOT, "harness", "insnform.c"), obj], capture_output=True, text=True)
    if r.returncode or r2.returncode:
        print("insnform build failed", r.stderr, r2.stderr[-2000:])
        return 2
    p = subprocess.run([exe], input="\n".join(lines) + "\n", capture_output=True, text=True)
    out = p.stdout.strip().split("\n")
    for l in out:
        if l.startswith("MONITOR") or l.startswith("C19"):
            print(l)
    notes = [l for l in out if l.startswith("NOTE")]
    print("insnform: %d shapes, %d sampled instructions, %d faulting samples (not validated)" % (len(groups), len(lines), len(notes)))
    for l in notes[:10]:
        print("  ", l)
    return p.returncode


if __name__ == "__main__":
    sys.exit(main())
