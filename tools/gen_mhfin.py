#!/usr/bin/env python3
"""gen_mhfin.py <repo> <lean-dir>: every instance of the multi-hash finalize functions (`_mh_sha1_finalize_<fam>`,
`_mh_sha256_finalize_<fam>`, `_mh_sha1_murmur3_x64_128_finalize_<fam>`) of the current tree -> Gen/MhFin.lean, as data
of IsalVerif/Impl/MhFinC.lean.  Locals: total_len = 0, partial_block_len = 1, murmur_tail_data (offset from
partial_block_buffer) = 2.  Anything the small language cannot say becomes `.unsupported`, which no proof accepts."""
import os, re, sys
sys.path.insert(0, os.path.dirname(os.path.abspath(__file__)))
import gen_mhupdate
from gen_mhupdate import Tr, clang_json, kids, strip, callee, NoFit, width, enum_table
import gen_submit

FLOCALS = {"total_len": 0, "partial_block_len": 1}
IGNORED = ("aligned_frame_buffer", "mh_sha1_segs_digests", "mh_sha256_segs_digests")
ALLOWED = {"total", "loc", "lit", "add", "sub", "and", "shl", "shr", "trunc"}
ALGS = [("mh_sha1", "mh_sha1", "mh_sha1_digest"), ("mh_sha256", "mh_sha256", "mh_sha256_digest"),
        ("mh_sha1_murmur3_x64_128", "mh_sha1", "mh_sha1_digest")]


SIZEOF = {"uint64_t": 8, "unsigned long": 8, "uint32_t": 4, "unsigned int": 4, "uint8_t": 1}


class TrFin(Tr):
    def const(self, n):
        v = super().const(n)
        if v is not None:
            return v
        k = n.get("kind")
        if k == "UnaryExprOrTypeTraitExpr" and n.get("name") == "sizeof":
            return SIZEOF.get((n.get("argType") or {}).get("qualType"))
        if k == "BinaryOperator" and n.get("opcode") in ("*", "+", "-"):
            # constant folding (values small enough that no C type involved can wrap)
            a, b = kids(n)
            ca, cb = self.const(a), self.const(b)
            if ca is not None and cb is not None and 0 <= ca < 2 ** 31 and 0 <= cb < 2 ** 31:
                v = ca * cb if n["opcode"] == "*" else ca + cb if n["opcode"] == "+" else ca - cb
                if 0 <= v < 2 ** 31:
                    return v
        return None

    def copy(self, t, nm, buf, ivar=None):
        """`((uint32_t *) <nm>)[i] = ctx-><nm>[j];` -> (i, j) (constants, or both the loop variable -> ("i", "i"))"""
        if t.get("kind") != "BinaryOperator" or t.get("opcode") != "=":
            raise NoFit("statement in the output block")
        lhs, rhs = kids(t)
        l0, r0 = strip(lhs), strip(rhs)
        if l0.get("kind") != "ArraySubscriptExpr" or r0.get("kind") != "ArraySubscriptExpr":
            raise NoFit("output copy")
        lb, li = kids(l0)
        rb, ri = kids(r0)
        if width(l0) != (32, False) or width(r0) != (32, False):
            raise NoFit("output copy width")
        if strip(lb).get("referencedDecl", {}).get("name") != nm or self.ctx_field(rb) != nm:
            raise NoFit("output copy between other buffers")
        if ivar is not None:
            if strip(li).get("referencedDecl", {}).get("name") == ivar and strip(ri).get("referencedDecl", {}).get("name") == ivar:
                return ("i", "i")
            raise NoFit("output copy index")
        di, si = self.const(li), self.const(ri)
        if di is None or si is None:
            raise NoFit("output copy index")
        return (di, si)

    def expr(self, n):
        k = n.get("kind")
        if self.const(n) is None and k == "DeclRefExpr":
            nm = n["referencedDecl"]["name"]
            if nm in FLOCALS and width(n) == (64, False):
                return "(.loc %d)" % FLOCALS[nm]
            if nm == "num_blocks" and width(n) == (32, False) and getattr(self, "blockbase", False):
                return "(.loc 3)"
            raise NoFit("variable " + nm)
        return super().expr(n)

    def zexpr(self, n):
        e = self.expr(n)
        bad = set(re.findall(r"\.([A-Za-z_]\w*)", e)) - ALLOWED
        if bad:
            raise NoFit("expression uses " + ",".join(sorted(bad)))
        return e

    def pbase(self, n):
        """offset expression of `partial_block_buffer [+|- e]` or of the pointer local murmur_tail_data, or None"""
        n = strip(n)
        if n.get("kind") == "DeclRefExpr":
            nm = n["referencedDecl"]["name"]
            return ".lit 0" if nm == "partial_block_buffer" else "(.loc 2)" if nm == "murmur_tail_data" else None
        if n.get("kind") == "BinaryOperator" and n.get("opcode") in ("+", "-"):
            a, b = kids(n)
            base = self.pbase(a)
            if base is None:
                return None
            if width(b)[1]:
                raise NoFit("signed pointer offset")
            e = self.zexpr(b)
            if base == ".lit 0" and n["opcode"] == "+":
                return e
            return "(.%s (%s) (%s))" % ("add" if n["opcode"] == "+" else "sub", base, e)
        return None

    def ctx_field(self, n):
        n = strip(n)
        return self.member(n)

    def walk_fin(self, stmts, out, alg, sha_field):
        """straight-line code; `if (<out> != NULL) { copies }` folds into the copies"""
        for s in stmts:
            try:
                k = s.get("kind")
                if k == "NullStmt":
                    continue
                if k == "DeclStmt":
                    for v in kids(s):
                        nm = v.get("name")
                        if kids(v) or nm not in set(FLOCALS) | set(IGNORED) | {"partial_block_buffer", "murmur_tail_data", "i"}:
                            raise NoFit("declaration of " + str(nm))
                    continue
                if k == "IfStmt":
                    parts = kids(s)
                    if len(parts) != 2:
                        raise NoFit("if with else")
                    cond, then = parts
                    tb = kids(then) if then.get("kind") == "CompoundStmt" else [then]
                    c0 = strip(cond)
                    if c0.get("kind") != "BinaryOperator" or c0.get("opcode") not in ("==", "!="):
                        raise NoFit("if condition")
                    l, r = kids(c0)
                    nm = strip(l).get("referencedDecl", {}).get("name")
                    rn = strip(r)
                    isnull = (rn.get("kind") == "IntegerLiteral" and rn.get("value") == "0") or rn.get("kind") == "GNUNullExpr"
                    if not isnull:
                        raise NoFit("if condition not a NULL test")
                    if c0["opcode"] == "==" and nm == "ctx" and len(tb) == 1 and tb[0].get("kind") == "ReturnStmt":
                        out.append(".nullCheck")
                        continue
                    if c0["opcode"] == "!=" and nm in (sha_field, "murmur3_x64_128_digest"):
                        buf = ".sha" if nm == sha_field else ".mur"
                        for t in tb:
                            if t.get("kind") == "NullStmt":
                                continue
                            if t.get("kind") == "ForStmt":
                                # `for (i = 0; i < <const>; i++) <copy of word i>;` unrolled
                                fk = [c for c in t.get("inner", [])]
                                init, cond, inc, body = fk[0], fk[2], fk[3], fk[4]
                                i0 = strip(kids(init)[0]) if init.get("kind") == "BinaryOperator" and init.get("opcode") == "=" else {}
                                iv = i0.get("referencedDecl", {}).get("name")
                                c1 = strip(cond)
                                if not iv or self.const(kids(init)[1]) != 0 or c1.get("kind") != "BinaryOperator" or c1.get("opcode") != "<" \
                                        or strip(kids(c1)[0]).get("referencedDecl", {}).get("name") != iv or self.const(kids(c1)[1]) is None \
                                        or inc.get("kind") != "UnaryOperator" or inc.get("opcode") != "++" \
                                        or strip(kids(inc)[0]).get("referencedDecl", {}).get("name") != iv:
                                    raise NoFit("loop in the output block")
                                cnt = self.const(kids(c1)[1])
                                if not (0 <= cnt <= 64):
                                    raise NoFit("loop bound")
                                bb = kids(body) if body.get("kind") == "CompoundStmt" else [body]
                                bb = [x for x in bb if x.get("kind") != "NullStmt"]
                                if len(bb) != 1:
                                    raise NoFit("loop body")
                                self.copy(bb[0], nm, buf, ivar=iv)
                                for j in range(cnt):
                                    out.append(".out %s %d %d" % (buf, j, j))
                                continue
                            di, si = self.copy(t, nm, buf)
                            out.append(".out %s %d %d" % (buf, di, si))
                        continue
                    raise NoFit("if")
                if k == "ReturnStmt":
                    if not kids(s):
                        if getattr(self, "blockbase", False):
                            out.append(".ret (0)")
                            continue
                        raise NoFit("return without a value")
                    v = self.const(kids(s)[0])
                    if v is None:
                        raise NoFit("return of a non-constant")
                    out.append(".ret (%d)" % v)
                    continue
                if k == "BinaryOperator" and s.get("opcode") == "=":
                    lhs, rhs = kids(s)
                    l0 = strip(lhs)
                    nm = l0.get("referencedDecl", {}).get("name") if l0.get("kind") == "DeclRefExpr" else None
                    if nm in FLOCALS:
                        out.append(".setLoc %d (%s)" % (FLOCALS[nm], self.zexpr(rhs)))
                        continue
                    if nm == "murmur_tail_data":
                        off = self.pbase(rhs)
                        if off is None:
                            raise NoFit("murmur_tail_data not inside the partial buffer")
                        out.append(".setLoc 2 (%s)" % off)
                        continue
                    if nm == "partial_block_buffer" and self.member(strip(rhs)) == "partial_block_buffer":
                        continue
                    if nm in IGNORED:
                        continue      # scratch frame / interim digest pointers: passed through to the tail function
                    raise NoFit("assignment")
                if k == "ReturnStmt" and not kids(s) and getattr(self, "blockbase", False):
                    out.append(".ret (0)")
                    continue
                if k == "CallExpr" and getattr(self, "blockbase", False):
                    cal = callee(s) or ""
                    a = kids(s)[1:]
                    ref = lambda x: strip(x).get("referencedDecl", {}).get("name")
                    if cal == "_mh_sha1_block_base" and len(a) == 4 and [ref(x) for x in a[:3]] == ["input_data", "mh_sha1_digests", "frame_buffer"]:
                        out.append(".shaBlockIn (%s)" % self.zexpr(a[3]))
                        continue
                    if cal == "_murmur3_x64_128_block" and len(a) == 3 and ref(a[0]) == "input_data" and ref(a[2]) == "murmur3_x64_128_digests":
                        out.append(".murBlockIn (%s)" % self.zexpr(a[1]))
                        continue
                    raise NoFit("call " + cal)
                if k == "CallExpr":
                    cal = callee(s) or ""
                    a = kids(s)[1:]
                    if cal == "_murmur3_x64_128_block" and len(a) == 3 and self.ctx_field(a[2]) == "murmur3_x64_128_digest":
                        off = self.pbase(a[0])
                        if off is not None:
                            out.append(".murBlock (%s) (%s)" % (off, self.zexpr(a[1])))
                            continue
                    if cal == "_murmur3_x64_128_tail" and len(a) == 3 and self.ctx_field(a[2]) == "murmur3_x64_128_digest":
                        off = self.pbase(a[0])
                        if off is not None:
                            out.append(".murTail (%s) (%s)" % (off, self.zexpr(a[1])))
                            continue
                    if re.fullmatch(r"_mh_sha(1|256)_tail_\w+", cal) and len(a) == 5 and self.pbase(a[0]) == ".lit 0" \
                            and self.ctx_field(a[4]) == sha_field:
                        self.tails.add(cal)
                        out.append(".shaTail (%s)" % self.zexpr(a[1]))
                        continue
                    raise NoFit("call " + cal)
                raise NoFit("statement " + str(k))
            except NoFit as e:
                out.append('.unsupported "%s"' % str(e).replace('"', "'")[:80])
            except Exception as e:
                out.append('.unsupported "translator: %s"' % type(e).__name__)


SOURCES = [("mh_sha1/mh_sha1_finalize_base.c", "_mh_sha1_finalize_base"), ("mh_sha1/mh_sha1.c", "_mh_sha1_finalize_"),
           ("mh_sha1/mh_sha1_avx512.c", "_mh_sha1_finalize_"),
           ("mh_sha256/mh_sha256_finalize_base.c", "_mh_sha256_finalize_base"), ("mh_sha256/mh_sha256.c", "_mh_sha256_finalize_"),
           ("mh_sha256/mh_sha256_avx512.c", "_mh_sha256_finalize_"),
           ("mh_sha1_murmur3_x64_128/mh_sha1_murmur3_x64_128_finalize_base.c", "_mh_sha1_murmur3_x64_128_finalize_base"),
           ("mh_sha1_murmur3_x64_128/mh_sha1_murmur3_x64_128.c", "_mh_sha1_murmur3_x64_128_finalize_"),
           ("mh_sha1_murmur3_x64_128/mh_sha1_murmur3_x64_128_avx512.c", "_mh_sha1_murmur3_x64_128_finalize_")]


def main(argv=None):
    argv = argv or sys.argv[1:]
    repo, lean = argv[0], argv[1]
    enums = enum_table(repo)
    for hdr in ("include/mh_sha1.h", "include/mh_sha256.h", "include/mh_sha1_murmur3_x64_128.h"):

        def walk(n):
            if n.get("kind") == "EnumConstantDecl":
                v = [c for c in n.get("inner", []) if c.get("kind") == "ConstantExpr"]
                if v and "value" in v[0]:
                    enums[n["name"]] = int(v[0]["value"])
            for c in n.get("inner", []):
                walk(c)
        for d in gen_submit.clang_json(repo, hdr):
            walk(d)
    tr = TrFin(enums)
    rows, seen = [], set()
    for rel, flt in SOURCES:
        if not os.path.exists(os.path.join(repo, rel)):
            continue
        for d in clang_json(repo, rel, flt):
            m = re.fullmatch(r"_(mh_sha1|mh_sha256|mh_sha1_murmur3_x64_128)_finalize_(\w+)", d.get("name", ""))
            if d.get("kind") != "FunctionDecl" or not m or d["name"] in seen:
                continue
            cs = [c for c in kids(d) if c.get("kind") == "CompoundStmt"]
            if not cs:
                continue
            seen.add(d["name"])
            alg, tailalg, sha_field = [x for x in ALGS if x[0] == m.group(1)][0]
            tr.tails, tr.consts, tr.frozen = set(), {}, set()
            out = []
            tr.walk_fin(kids(cs[0]), out, alg, sha_field)
            want = "_%s_tail_%s" % (tailalg, m.group(2))
            if tr.tails != {want}:
                out.append('.unsupported "tail function %s, expected %s"' % (sorted(tr.tails), want))
            rows.append((rel, d["name"], alg, out))
    # the stitched C block function (base family): two calls over the same input
    tr.blockbase = True
    for d in clang_json(repo, "mh_sha1_murmur3_x64_128/mh_sha1_murmur3_x64_128.c", "_mh_sha1_murmur3_x64_128_block_base"):
        if d.get("kind") != "FunctionDecl" or d.get("name") != "_mh_sha1_murmur3_x64_128_block_base":
            continue
        cs = [c for c in kids(d) if c.get("kind") == "CompoundStmt"]
        if not cs:
            continue
        tr.tails, tr.consts, tr.frozen = set(), {}, set()
        out = []
        tr.walk_fin(kids(cs[0]), out, "block_base", "-")
        rows.append(("mh_sha1_murmur3_x64_128/mh_sha1_murmur3_x64_128.c", d["name"], "block_base", out))
    tr.blockbase = False
    out = ["import IsalVerif.Impl.MhFinC",
           "/-! GENERATED by tools/gen_mhfin.py from the current tree: every instance of the multi-hash finalize functions. Do not edit. -/",
           "namespace IsalVerif.Gen.MhFin", "open IsalVerif.MhFinC", ""]
    names = []
    for k, (rel, fn, alg, prog) in enumerate(rows):
        names.append("f%d" % k)
        out.append("def f%d : Src := { file := \"%s\", fn := \"%s\", alg := \"%s\", prog := [\n  %s] }" % (k, rel, fn, alg, ",\n  ".join(prog)))
    out += ["", "def all : List Src := [%s]" % ", ".join(names), "", "end IsalVerif.Gen.MhFin"]
    dst = os.path.join(lean, "IsalVerif", "Gen", "MhFin.lean")
    txt = "\n".join(out) + "\n"
    if not os.path.exists(dst) or open(dst).read() != txt:
        open(dst, "w").write(txt)
    uns = sum(1 for _, _, _, p in rows for s in p if ".unsupported" in s)
    print("mh finalize: %d functions, %d unsupported statements -> %s" % (len(rows), uns, dst))
    return rows


if __name__ == "__main__":
    main()
