#!/usr/bin/env python3
"""gen_rollstep.py <repo> <lean-dir>: the 64-bit arithmetic of the rolling-hash step of rolling_hash/rolling_hash2.c
-> Gen/RollStep.lean, as data of IsalVerif/Impl/RollC.lean (expression language of Impl/MurC.lean): the bodies and exit
tests of the two scan loops of `_rolling_hash2_run_until_base`, `hash_fn`, and the loop body of `_rolling_hash2_reset`.
Atoms: `.q 0` = t1[b1[i]] / state->table1[new_char] / state->table1[init_bytes[i]]; `.q 1` = t2[b2[i]] /
state->table2[old_char]; `.len` = mask; `.v .h0` = h / hash.  The statements around the arithmetic are compared as AST
shape strings with today's (tools/rollstep_frames.json): `frame := false` if they differ."""
import json, os, sys
sys.path.insert(0, os.path.dirname(os.path.abspath(__file__)))
from gen_mhupdate import clang_json, kids, strip, NoFit, width
from gen_murmur import Sym, shape, lean

SRC = "rolling_hash/rolling_hash2.c"


def ref(n):
    return strip(n).get("referencedDecl", {}).get("name")


class RSym(Sym):
    def __init__(self, atoms):
        super().__init__({})
        self.atoms = atoms      # list of (table matcher, byte-array name, index name) -> atom

    def ex(self, n, env):
        if n.get("kind") == "ArraySubscriptExpr":
            b, i = kids(n)
            b0, i0 = strip(b), strip(i)
            tname = b0["referencedDecl"]["name"] if b0.get("kind") == "DeclRefExpr" else \
                ("state->" + b0.get("name", "?")) if b0.get("kind") == "MemberExpr" and b0.get("isArrow") and ref(kids(b0)[0]) == "state" else None
            if i0.get("kind") == "ArraySubscriptExpr":
                bb, ii = kids(i0)
                iname = "%s[%s]" % (ref(bb), ref(ii))
            else:
                iname = ref(i0)
            if width(n) == (64, False) and width(i) == (8, False) and (tname, iname) in self.atoms:
                return self.atoms[(tname, iname)]
            raise NoFit("table read %s[%s]" % (tname, iname))
        return super().ex(n, env)


def arith(sym, stmts, env, hname):
    out = []
    for s in stmts:
        try:
            dst, e = sym.assign(s, env)
            if dst != hname:
                raise NoFit("assignment to " + str(dst))
            out.append("⟨.h0, %s⟩" % lean(e))
        except NoFit as ex:
            return ['⟨.d1, .lit 0⟩ /- unsupported: %s -/' % str(ex).replace("-/", "- /")[:80]], False
        except Exception as ex:
            return ['⟨.d1, .lit 0⟩ /- translator: %s -/' % type(ex).__name__], False
    return out, True


def body_of(fd):
    return kids([c for c in kids(fd) if c.get("kind") == "CompoundStmt"][0])


def main(argv=None):
    argv = argv or sys.argv[1:]
    repo, lean_dir = argv[0], argv[1]
    here = os.path.dirname(os.path.abspath(__file__))
    FRAME = json.load(open(os.path.join(here, "rollstep_frames.json")))
    fds = {}
    for fn in ("_rolling_hash2_run_until_base", "hash_fn", "_rolling_hash2_reset"):
        for d in clang_json(repo, SRC, fn):
            if d.get("kind") == "FunctionDecl" and d.get("name") == fn and any(c.get("kind") == "CompoundStmt" for c in kids(d)):
                fds[fn] = d
    rows, shapes = [], {}
    # ---- the two scan loops
    fd = fds.get("_rolling_hash2_run_until_base")
    if fd is not None:
        st = body_of(fd)
        ifs = [s for s in st if s.get("kind") == "IfStmt"]
        fr = [shape(p) for p in kids(fd) if p.get("kind") == "ParmVarDecl"] + [shape(s) for s in st if s.get("kind") != "IfStmt"]
        loops = []
        if len(ifs) == 1 and len(kids(ifs[0])) == 3:
            cond, th, el = kids(ifs[0])
            fr.append("if " + shape(cond))
            for blk in (th, el):
                bs = kids(blk) if blk.get("kind") == "CompoundStmt" else [blk]
                loops.append(bs[0] if len(bs) == 1 and bs[0].get("kind") == "ForStmt" else None)
        sym = RSym({("t1", "b1[i]"): ("q", 0), ("t2", "b2[i]"): ("q", 1)})
        for k, lp in enumerate(loops):
            name, prog, ok, test = "until%d" % k, [], False, None
            if lp is not None:
                fk = lp.get("inner", [])
                fr += ["for%d " % k + " ".join(shape(x) if x else "-" for x in fk[:4])]
                bs = kids(fk[4]) if fk[4].get("kind") == "CompoundStmt" else [fk[4]]
                if bs and bs[-1].get("kind") == "IfStmt" and len(kids(bs[-1])) == 2:
                    c, exitblk = kids(bs[-1])
                    fr.append("exit%d " % k + shape(exitblk))
                    c0 = strip(c)
                    env = {"h": ("v", "h0"), "mask": ("len",)}
                    prog, ok = arith(sym, bs[:-1], env, "h")
                    try:
                        if c0.get("kind") != "BinaryOperator" or c0.get("opcode") != "==":
                            raise NoFit("exit test")
                        l, r = kids(c0)
                        want_zero = (k == 0)
                        r0 = strip(r)
                        isz = r0.get("kind") == "IntegerLiteral" and r0.get("value") == "0"
                        istr = ref(r) == "trigger" and width(r) == (64, False)
                        if (want_zero and not isz) or (not want_zero and not istr) or width(l) != (64, False):
                            raise NoFit("exit test right-hand side")
                        test = lean(sym.ex(l, env))
                    except NoFit:
                        ok = False
            rows.append((name, ok, prog, test))
        shapes["until"] = fr
        if fr != FRAME.get("until"):
            rows = [(n, False, p, t) for (n, _, p, t) in rows]
    # ---- hash_fn
    fd = fds.get("hash_fn")
    if fd is not None:
        st = body_of(fd)
        fr = [shape(p) for p in kids(fd) if p.get("kind") == "ParmVarDecl"] + [shape(s) for s in st if s.get("kind") == "ReturnStmt"]
        sym = RSym({("state->table1", "new_char"): ("q", 0), ("state->table2", "old_char"): ("q", 1)})
        prog, ok = arith(sym, [s for s in st if s.get("kind") != "ReturnStmt"], {"h": ("v", "h0")}, "h")
        shapes["hash_fn"] = fr
        rows.append(("hash_fn", ok and fr == FRAME.get("hash_fn"), prog, None))
    # ---- reset loop
    fd = fds.get("_rolling_hash2_reset")
    if fd is not None:
        st = body_of(fd)
        fors = [s for s in st if s.get("kind") == "ForStmt"]
        fr = [shape(p) for p in kids(fd) if p.get("kind") == "ParmVarDecl"] + [shape(s) for s in st if s.get("kind") != "ForStmt"]
        prog, ok = [], False
        if len(fors) == 1:
            fk = fors[0].get("inner", [])
            fr.append("for " + " ".join(shape(x) if x else "-" for x in fk[:4]))
            bs = kids(fk[4]) if fk[4].get("kind") == "CompoundStmt" else [fk[4]]
            sym = RSym({("state->table1", "init_bytes[i]"): ("q", 0)})
            prog, ok = arith(sym, bs, {"hash": ("v", "h0")}, "hash")
        shapes["reset"] = fr
        rows.append(("reset", ok and fr == FRAME.get("reset"), prog, None))
    if os.environ.get("ROLLSTEP_DUMP_FRAMES"):
        json.dump(shapes, open(os.environ["ROLLSTEP_DUMP_FRAMES"], "w"), indent=0)
    txt = ["import IsalVerif.Impl.RollC",
           "/-! GENERATED by tools/gen_rollstep.py from the current tree: the arithmetic of the rolling-hash step. Do not edit. -/",
           "namespace IsalVerif.Gen.RollStep", "open IsalVerif.MurC IsalVerif.RollC", ""]
    names = []
    for k, (name, frame, prog, test) in enumerate(rows):
        names.append("r%d" % k)
        txt.append("def r%d : RollC.Src := { name := \"%s\", frame := %s, test := %s, prog := [\n  %s] }" %
                   (k, name, "true" if frame else "false", ("some " + test) if test else "none", ",\n  ".join(prog)))
    txt += ["", "def all : List RollC.Src := [%s]" % ", ".join(names), "", "end IsalVerif.Gen.RollStep"]
    dst = os.path.join(lean_dir, "IsalVerif", "Gen", "RollStep.lean")
    t = "\n".join(txt) + "\n"
    if not os.path.exists(dst) or open(dst).read() != t:
        open(dst, "w").write(t)
    print("rolling step: %d programs, frames %s -> %s" % (len(rows), [r[1] for r in rows], dst))
    return rows


if __name__ == "__main__":
    main()
