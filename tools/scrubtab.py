"""Instruction table of engine Scrub (property C14): per-instruction *ghost* (taint / vector) effect.

This is the second half of the trusted table (the first half, tools/x86tab.py, gives the GPR / stack-pointer
effect).  For every instruction form that occurs in the AES objects it says

  vz   64-bit mask of vector *parts* the instruction sets to zero
  vw   64-bit mask of vector parts that receive a computed value
  vr   64-bit mask of vector parts that are read (sources; the destination too if it is read-modify-write)
  cp   register-to-register copy (cd, cs, lo, hi): part of `cd` := the same part of `cs` (value and taint)
  gw   mask of scalar locations written      bit 0..15 = GPRs (hardware order), 16 = RFLAGS, 17..24 = k0..k7
  gr   mask of scalar locations read (value operands; address registers of a memory operand are *not* here)
  mem  the memory operand that is READ, if any: (base, index, disp, size, rip, seg)  - classified later
  stw  the instruction WRITES memory through operand 0 (the base record says where)
  weak the memory write is partial (opmask store): it may dirty but never cleans
  dc   declassification candidate, rule "D"  (result of the last AES round: aesenclast/aesdeclast and VEX/EVEX forms)
  dc2  declassification candidate, rule "D2" (carry-less multiplication: GHASH products)
  xor  rule "X" bookkeeping for 128-bit register XORs (pxor/vpxor/... without opmask, all operands xmm):
       (1, d, b, o): the record computes part d := part b XOR (other operand o: a part, or 64 = the memory operand)
       (2, a, b, _): the record computes the XOR of parts a and b into a third register

Vector parts: part r (0..31) = bits 0..127 of register r ("lo"), part 32+r = bits 128..511 ("hi").
  legacy SSE write of xmm r   : lo written, hi UNCHANGED
  VEX/EVEX write of xmm r     : lo written, hi ZEROED
  VEX/EVEX write of ymm/zmm r : lo and hi written (for ymm the bits 256..511 inside hi are zeroed)
  vzeroupper                  : hi of 0..15 zeroed;   vzeroall: lo and hi of 0..15 zeroed

Policy: CONSERVATIVE.  Unknown mnemonic or operand shape -> None -> the record is `unsupported` -> the
checker rejects the function.  A destination is assumed to be read unless the mnemonic is in a
pure-overwrite list.  The table is validated dynamically by tools/vecform.py (harness/vecform.c).
"""
import re
import x86tab
from x86tab import Op, splitops, REG

FL = 16          # RFLAGS
K0 = 17          # k0..k7 = 17..24
NSC = 25
VREG_RE = re.compile(r"^([xyz])mm(\d+)((?:\{[^}]*\})*)$")
KREG_RE = re.compile(r"^k([0-7])$")
ANN_RE = re.compile(r"\{([^}]*)\}")


def LO(r):
    return 1 << r


def HI(r):
    return 1 << (32 + r)


ALL_LO16 = sum(LO(r) for r in range(16))
ALL_HI16 = sum(HI(r) for r in range(16))


class VOp:
    """operand with vector / opmask detail"""
    __slots__ = ("op", "kind", "v", "w", "k", "z", "kreg", "text")

    def __init__(self, text):
        self.text = text.strip()
        self.op = Op(self.text)
        self.kind = self.op.kind
        self.v = self.w = self.kreg = None
        self.k = None          # opmask annotation {kN}
        self.z = False
        m = VREG_RE.match(self.text)
        if m:
            self.v = int(m.group(2))
            self.w = {"x": 16, "y": 32, "z": 64}[m.group(1)]
        m = KREG_RE.match(self.text)
        if m:
            self.kreg = int(m.group(1))
        for ann in ANN_RE.findall(self.text):
            mk = re.match(r"^k([0-7])$", ann)
            if mk:
                self.k = int(mk.group(1))
            elif ann == "z":
                self.z = True
            elif self.kind != "?":
                self.kind = "?"     # {1to8}, {rn-sae} ...: not modelled

    def rparts(self):
        """parts read when this vector register is a source"""
        return LO(self.v) | (HI(self.v) if self.w > 16 else 0)


class Ghost:
    __slots__ = ("vz", "vw", "vr", "cp", "gw", "gr", "mem", "stw", "weak", "dc", "dc2", "xor", "why")

    def __init__(self):
        self.vz = self.vw = self.vr = 0
        self.cp = None
        self.gw = self.gr = 0
        self.mem = None
        self.stw = False
        self.weak = False
        self.dc = False
        self.dc2 = False
        self.xor = None        # rule "X": (xm, xa, xb, xo)
        self.why = ""

    def __repr__(self):
        return "Ghost(vz=%x vw=%x vr=%x cp=%s gw=%x gr=%x mem=%s stw=%s weak=%s dc=%s)" % (
            self.vz, self.vw, self.vr, self.cp, self.gw, self.gr, self.mem, self.stw, self.weak, self.dc)


# ---------------------------------------------------------------------------------------------------------
# scalar (GPR) instructions

# destination fully overwritten, not read (for 8/16-bit destinations the old value IS read, handled below)
G_PURE = set("mov movabs movzx movsx movsxd lea movbe popcnt lzcnt tzcnt andn bextr bzhi pext pdep rorx sarx shlx shrx "
             "blsi blsmsk blsr".split())
# RFLAGS fully determined by the operands of this instruction (all six status flags written, or the
# ones left are undefined): flags := taint(sources)
FL_FULL = set("add sub and or xor cmp test neg adc sbb popcnt lzcnt tzcnt andn bextr bzhi blsi blsmsk blsr "
              "cmc".split())     # cmc reads CF: FL is also a source, see below
# RFLAGS partially written / conditionally written: flags := old flags OR taint(sources)
FL_ACC = set("inc dec shl shr sar sal rol ror rcl rcr shld shrd bt bts btr btc bsf bsr".split())
# do not touch RFLAGS
FL_NONE = set("mov movabs movzx movsx movsxd lea movbe not bswap xchg pext pdep rorx sarx shlx shrx mulx nop nopw nopl "
              "endbr64 push pop cpuid xgetbv pause prefetcht0 prefetcht1 prefetcht2 prefetchnta lfence mfence sfence "
              "leave".split())
FL_READ = set("adc sbb cmc rcl rcr".split())
CMOV = {m for m in x86tab.W1_INT if m.startswith("cmov")}
SETCC = {m for m in x86tab.W1_INT if m.startswith("set")}
INT_KNOWN = G_PURE | FL_FULL | FL_ACC | FL_NONE | CMOV | SETCC | {"test", "cmp"}


def memref(o):
    return (o.op.base, o.op.index, o.op.disp, o.op.size, o.op.rip, o.op.seg, o.op.addr32, o.op.vecidx)


def addr_regs(o):
    m = 0
    if o.op.addr32:
        # 32-bit address-size form ([r8d+0xf]): x86tab does not record the registers
        for name in re.findall(r"[a-z][a-z0-9]+", o.text.split("[", 1)[1]):
            if name in REG:
                m |= 1 << REG[name][0]
        return m
    if o.op.base is not None:
        m |= 1 << o.op.base
    if o.op.index is not None and o.op.index >= 0:
        m |= 1 << o.op.index
    return m


def scalar(mn, ops, ins):
    g = Ghost()
    if mn in ("nop", "nopw", "nopl", "endbr64", "pause", "lfence", "mfence", "sfence") or mn.startswith("prefetch"):
        return g
    if mn == "cpuid":
        g.gw = x86tab.IMPLICIT["cpuid"]
        g.gr = (1 << 0) | (1 << 1)
        return g
    if mn == "xgetbv":
        g.gw = x86tab.IMPLICIT["xgetbv"]
        g.gr = 1 << 1
        return g
    if mn == "push":
        if len(ops) != 1:
            return None
        o = ops[0]
        g.stw = True
        if o.kind == "g":
            g.gr = 1 << o.op.reg
        elif o.kind == "m":
            g.mem = memref(o)
        elif o.kind != "i":
            return None
        return g
    if mn == "pop":
        if len(ops) != 1 or ops[0].kind != "g":
            return None
        g.gw = 1 << ops[0].op.reg
        g.mem = ("POP",)
        return g
    if mn == "leave":
        g.gw = 1 << x86tab.RBP       # rsp := rbp is the base record's business; rbp := [rbp]
        g.mem = ("LEAVE",)
        return g
    if mn in ("cmp", "test"):
        if len(ops) != 2:
            return None
        g.gw = 1 << FL
        for o in ops:
            if o.kind == "g":
                g.gr |= 1 << o.op.reg
            elif o.kind == "m":
                if g.mem is not None:
                    return None
                g.mem = memref(o)
            elif o.kind != "i":
                return None
        return g
    if mn == "cmc":
        g.gw = 1 << FL
        g.gr = 1 << FL
        return g
    if mn in CMOV:
        if len(ops) != 2 or ops[0].kind != "g":
            return None
        g.gw = 1 << ops[0].op.reg
        g.gr = (1 << ops[0].op.reg) | (1 << FL)
        if ops[1].kind == "g":
            g.gr |= 1 << ops[1].op.reg
        elif ops[1].kind == "m":
            g.mem = memref(ops[1])
        else:
            return None
        return g
    if mn in SETCC:
        if len(ops) != 1:
            return None
        o = ops[0]
        g.gr = 1 << FL
        if o.kind == "g":
            g.gw = 1 << o.op.reg
            g.gr |= 1 << o.op.reg          # byte write: the rest of the register is kept
        elif o.kind == "m":
            g.stw = True
        else:
            return None
        return g
    if mn not in INT_KNOWN:
        return None
    if not ops or len(ops) > 3:
        return None
    d = ops[0]
    srcs = ops[1:]
    # flags
    if mn in FL_FULL:
        g.gw |= 1 << FL
    elif mn in FL_ACC:
        g.gw |= 1 << FL
        g.gr |= 1 << FL
    elif mn not in FL_NONE:
        return None
    if mn in FL_READ:
        g.gr |= 1 << FL
    # sources
    for o in srcs:
        if o.kind == "g":
            g.gr |= 1 << o.op.reg
        elif o.kind == "m":
            if mn == "lea":
                g.gr |= addr_regs(o)       # lea computes with the address registers, it does not load
                if o.op.addr32 or o.op.seg is not None:
                    pass
            else:
                if g.mem is not None:
                    return None
                g.mem = memref(o)
        elif o.kind != "i":
            return None
    # zero idioms:  xor r,r / sub r,r
    zero_idiom = mn in ("xor", "sub") and len(ops) == 2 and d.kind == "g" and srcs[0].kind == "g" \
        and d.op.reg == srcs[0].op.reg and d.op.width == srcs[0].op.width and d.op.width >= 4
    if zero_idiom:
        g.gr &= ~(1 << d.op.reg)
    # destination
    if d.kind == "g":
        g.gw |= 1 << d.op.reg
        if mn in G_PURE and d.op.width >= 4:
            pass
        elif zero_idiom:
            pass
        else:
            g.gr |= 1 << d.op.reg
    elif d.kind == "m":
        g.stw = True
        if mn not in ("mov", "movbe"):
            # read-modify-write of memory
            if g.mem is not None:
                return None
            g.mem = memref(d)
    else:
        return None
    # one-operand forms (neg, not, inc, dec, shl r,1 printed with one operand ...): destination is a source
    if len(ops) == 1 and d.kind == "g":
        g.gr |= 1 << d.op.reg
    return g


# ---------------------------------------------------------------------------------------------------------
# vector instructions

# legacy SSE, xmm destination fully overwritten and not read
SSE_PURE = set("movdqa movdqu movaps movups movapd movupd lddqu movntdqa pshufd pshuflw pshufhw aesimc aeskeygenassist "
               "pabsb pabsw pabsd pmovzxbw pmovzxbd pmovzxbq pmovzxwd pmovzxwq pmovzxdq movddup movshdup movsldup".split())
# legacy SSE, xmm destination is read and written (the default for everything listed here)
SSE_RMW = set("""aesenc aesenclast aesdec aesdeclast paddb paddw paddd paddq psubb psubw psubd psubq pand pandn por pxor
    pblendvb pblendw pclmulqdq pclmulhqhqdq pclmulhqlqdq pclmullqhqdq pclmullqlqdq pcmpeqb pcmpeqw pcmpeqd pcmpeqq
    pinsrb pinsrw pinsrd pinsrq pshufb pslld pslldq psllq psllw psrld psrldq psrlq psrlw psrad psraw shufps shufpd
    xorps xorpd andps andpd orps orpd punpcklbw punpcklwd punpckldq punpcklqdq punpckhbw punpckhwd punpckhdq punpckhqdq
    palignr pmuludq""".split())
SSE_ZERO_IDIOM = set("pxor xorps xorpd psubb psubw psubd psubq".split())
# VEX/EVEX mnemonics whose destination is ALSO a source (beyond merge-masking)
VEX_DST_READ = set("vpternlogd vpternlogq vpermi2b vpermi2w vpermi2d vpermi2q vpermt2b vpermt2w vpermt2d vpermt2q".split())
VEX_KNOWN = set("""vaesenc vaesenclast vaesdec vaesdeclast vaesimc vaeskeygenassist valignq valignd
    vbroadcastf64x2 vbroadcasti32x4 vbroadcasti64x2 vbroadcasti128 vbroadcastf128 vbroadcastf32x4 vpbroadcastb vpbroadcastw
    vpbroadcastd vpbroadcastq
    vextracti32x4 vextracti64x4 vextracti64x2 vextracti128 vextractf128 vextractf32x4 vextractf64x4
    vinserti32x4 vinserti64x2 vinserti64x4 vinserti128 vinsertf128
    vmovd vmovq vmovdqa vmovdqa32 vmovdqa64 vmovdqu vmovdqu8 vmovdqu16 vmovdqu32 vmovdqu64 vmovntdq vmovntdqa
    vmovaps vmovups vmovapd vmovupd
    vpaddb vpaddw vpaddd vpaddq vpsubb vpsubw vpsubd vpsubq vpand vpandd vpandq vpandn vpandnd vpandnq vpor vpord vporq
    vpxor vpxord vpxorq vpblendvb vpclmulqdq vpclmulhqhqdq vpclmulhqlqdq vpclmullqhqdq vpclmullqlqdq
    vpcmpeqb vpcmpeqw vpcmpeqd vpcmpeqq vperm2i128 vperm2f128 vpextrb vpextrw vpextrd vpextrq vpinsrb vpinsrw vpinsrd vpinsrq
    vpshrdq vpshrdd vpshldq vpshldd vpshufb vpshufd vpslld vpslldq vpsllq vpsllw vpsllvd vpsllvq vpsrad vpsraq vpsraw
    vpsrld vpsrldq vpsrlq vpsrlw vpsrlvd vpsrlvq vpternlogd vpternlogq vshufi32x4 vshufi64x2 vshuff32x4 vshuff64x2
    vshufps vshufpd vxorps vxorpd vpunpcklqdq vpunpckhqdq vpalignr""".split())
VEX_ZERO_IDIOM = set("vpxor vpxord vpxorq vxorps vxorpd vpsubb vpsubw vpsubd vpsubq".split())
MOVES = set("movdqa movdqu movaps movups movapd movupd vmovdqa vmovdqa32 vmovdqa64 vmovdqu vmovdqu8 vmovdqu16 vmovdqu32 "
            "vmovdqu64 vmovaps vmovups vmovapd vmovupd".split())
XOR_MN = set("pxor xorps xorpd vpxor vpxord vpxorq vxorps vxorpd".split())
LAST_ROUND = set("aesenclast aesdeclast vaesenclast vaesdeclast".split())
CLMUL = set("pclmulqdq pclmulhqhqdq pclmulhqlqdq pclmullqhqdq pclmullqlqdq vpclmulqdq vpclmulhqhqdq vpclmulhqlqdq vpclmullqhqdq "
            "vpclmullqlqdq".split())
KMOV = set("kmovb kmovw kmovd kmovq".split())
KOPS2 = set("kandb kandw kandd kandq kandnb kandnw kandnd kandnq korb korw kord korq kxorb kxorw kxord kxorq kxnorb kxnorw "
            "kxnord kxnorq kaddb kaddw kaddd kaddq kunpckbw kunpckwd kunpckdq".split())
KOPS1 = set("knotb knotw knotd knotq kshiftlb kshiftlw kshiftld kshiftlq kshiftrb kshiftrw kshiftrd kshiftrq".split())


def vector(mn, ops, ins):
    g = Ghost()
    if mn == "vzeroupper":
        g.vz = ALL_HI16
        return g
    if mn == "vzeroall":
        g.vz = ALL_HI16 | ALL_LO16
        return g
    if mn in KMOV:
        if len(ops) != 2:
            return None
        d, s = ops
        if s.kreg is not None:
            g.gr |= 1 << (K0 + s.kreg)
        elif s.kind == "g":
            g.gr |= 1 << s.op.reg
        elif s.kind == "m":
            g.mem = memref(s)
        else:
            return None
        if d.kreg is not None:
            g.gw |= 1 << (K0 + d.kreg)
        elif d.kind == "g":
            g.gw |= 1 << d.op.reg
        elif d.kind == "m":
            g.stw = True
        else:
            return None
        return g
    if mn in KOPS2 or mn in KOPS1:
        if any(o.kreg is None and o.kind != "i" for o in ops) or ops[0].kreg is None:
            return None
        g.gw |= 1 << (K0 + ops[0].kreg)
        for o in ops[1:]:
            if o.kreg is not None:
                g.gr |= 1 << (K0 + o.kreg)
        return g
    legacy = not mn.startswith("v")
    if legacy and mn not in SSE_PURE and mn not in SSE_RMW and mn not in ("movd", "movq", "movntdq", "pextrb", "pextrw", "pextrd",
                                                                          "pextrq", "ptest", "pmovmskb"):
        return None
    if not legacy and mn not in VEX_KNOWN and mn not in ("vptest", "vpmovmskb"):
        return None
    if not ops:
        return None
    if mn in LAST_ROUND:
        g.dc = True
    if mn in CLMUL:
        g.dc2 = True
    d = ops[0]
    srcs = ops[1:]
    # ---- sources
    nmem = 0
    for o in srcs:
        if o.v is not None:
            g.vr |= o.rparts()
            if o.k is not None:
                return None
        elif o.kind == "g":
            g.gr |= 1 << o.op.reg
        elif o.kind == "m":
            nmem += 1
            g.mem = memref(o)
        elif o.kreg is not None:
            g.gr |= 1 << (K0 + o.kreg)
        elif o.kind != "i":
            return None
    if nmem > 1:
        return None
    if d.k is not None:
        g.gr |= 1 << (K0 + d.k)
    # ---- flag-setting tests
    if mn in ("ptest", "vptest"):
        if d.v is None:
            return None
        g.vr |= d.rparts()
        g.gw |= 1 << FL
        return g
    # ---- destination
    if d.kind == "m":
        # vector store
        if g.mem is not None:
            return None
        g.stw = True
        if d.k is not None:
            g.weak = True
        if d.z:
            return None
        return g
    if d.kind == "g":
        g.gw |= 1 << d.op.reg            # movd/movq/pextr*/pmovmskb r, x : zero-extending full overwrite of the 32/64-bit register
        if d.op.width < 4:
            g.gr |= 1 << d.op.reg
        return g
    if d.kreg is not None:
        g.gw |= 1 << (K0 + d.kreg)       # vpcmp* k, ...
        return g
    if d.v is None:
        return None
    r = d.v
    same_src = len(srcs) >= 2 and srcs[0].v is not None and srcs[1].v is not None and srcs[0].v == srcs[1].v \
        and srcs[0].w == srcs[1].w and all(o.kind == "i" for o in srcs[2:])
    if legacy:
        if d.w != 16 or d.k is not None:
            return None
        if mn in SSE_ZERO_IDIOM and len(srcs) == 1 and srcs[0].v == r:
            g.vz = LO(r)
            g.vr = 0
            return g
        if mn in MOVES and len(srcs) == 1 and srcs[0].v is not None:
            g.cp = (r, srcs[0].v, True, False)
            g.vr = 0
            return g
        g.vw = LO(r)
        if mn in XOR_MN and len(srcs) == 1 and srcs[0].v is not None and srcs[0].v != r:
            g.xor = (1, LO(r).bit_length() - 1, srcs[0].v, r)           # x := y XOR x_old
        if mn in SSE_PURE or mn in ("movd", "movq"):
            pass                                   # movd/movq x, r/m : zero-extended into the 128 bits; movq x,x too
        else:
            g.vr |= LO(r)
        return g
    # ---- VEX / EVEX
    wide = d.w > 16
    masked = d.k is not None
    if mn in VEX_ZERO_IDIOM and same_src and not masked and len(srcs) == 2:
        g.vz = LO(r) | HI(r)
        g.vr = 0
        return g
    if mn in MOVES and len(srcs) == 1 and srcs[0].v is not None and not masked:
        g.cp = (r, srcs[0].v, True, wide)
        g.vr = 0
        if not wide:
            g.vz = HI(r)
        return g
    g.vw = LO(r) | (HI(r) if wide else 0)
    if not wide:
        g.vz = HI(r)
    if mn in XOR_MN and not wide and not masked and len(srcs) == 2 and srcs[0].v is not None and srcs[0].w == 16:
        s1, s2 = srcs
        if s2.v is not None and s2.w == 16:
            if r != s1.v and r != s2.v and s1.v != s2.v:
                g.xor = (2, s1.v, s2.v, 0)                              # d := a XOR b, d distinct
            elif r == s1.v and r != s2.v:
                g.xor = (1, r, s2.v, r)                                 # d := b XOR d_old
            elif r == s2.v and r != s1.v:
                g.xor = (1, r, s1.v, r)
        elif s2.kind == "m" and r != s1.v:
            g.xor = (1, r, s1.v, 64)                                    # d := b XOR [mem]
    if mn in VEX_DST_READ or (masked and not d.z):
        g.vr |= LO(r) | (HI(r) if wide else 0)
    return g


def ghost(ins):
    """Ghost effect of a non-control-flow instruction, or None if the form is not in the table."""
    mn = ins.mnem
    raw = splitops(ins.ops)
    ops = [VOp(o) for o in raw]
    if any(o.kind == "?" and o.kreg is None for o in ops):
        return None
    for p in ins.prefix:
        if p not in ("notrack", "bnd", "data16", "cs", "ds", "es", "ss"):
            return None                    # rep / lock forms are not used by the AES objects
    if any(o.v is not None or o.kreg is not None for o in ops) or mn in ("vzeroupper", "vzeroall"):
        return vector(mn, ops, ins)
    if mn in ("movd", "movq", "movntdq"):
        return None
    return scalar(mn, ops, ins)
