#!/usr/bin/env python3
"""T-route for the bookkeeping prefix of `_<alg>_ctx_mgr_submit_<family>`: translate the C function of every SIMD-family
context-layer file of the current tree (clang-14 JSON AST) into the statement language of
lean/IsalVerif/Impl/SubmitC.lean and write lean/IsalVerif/Gen/SubmitPrefix.lean.

  gen_submit.py <repo-src-dir> <lean-dir>

The language covers the argument/state tests with their error stores and early returns, the FIRST reset and the stores
of error / incoming_buffer(_length) / status / total_length.  The block that tops up the partial buffer and the final
`return <alg>_ctx_mgr_resubmit(mgr, ctx)` become the markers `.tailTopUp`, `.tailRet` (correspondence route).  Anything
else becomes `.unsupported "<what>"`, which no Lean obligation accepts.  Enum constants are read from clang's AST of
include/multi_buffer.h.  Trusted: clang's parse and type resolution; this translator.
"""
import glob, json, os, re, subprocess, sys
sys.path.insert(0, os.path.dirname(os.path.abspath(__file__)))
from gen_hashpad import NoFit, kids, ctype, strip, callee, INC

ENUM_T = {"ISAL_HASH_CTX_FLAG": (32, False), "ISAL_HASH_CTX_STS": (32, False), "ISAL_HASH_CTX_ERROR": (32, True)}
FIELDS = {"status": ("status", 32), "total_length": ("total", 64), "partial_block_buffer_length": ("plen", 32),
          "incoming_buffer_length": ("inlen", 32)}


def clang_json(repo, rel, flt=None):
    cmd = ["clang-14", "-fsyntax-only", "-Wno-everything", "-fgnuc-version=4.9.0", "-Xclang", "-ast-dump=json"]
    if flt:
        cmd += ["-Xclang", "-ast-dump-filter=" + flt]
    cmd += ["-I" + os.path.join(repo, d) for d in INC] + [os.path.join(repo, rel)]
    p = subprocess.run(cmd, capture_output=True, text=True)
    if p.returncode != 0:
        raise NoFit("clang failed: " + p.stderr[:300])
    docs, dec, s, i = [], json.JSONDecoder(), p.stdout, 0
    while i < len(s):
        while i < len(s) and s[i] in " \n\r\t":
            i += 1
        if i >= len(s):
            break
        d, i = dec.raw_decode(s, i)
        docs.append(d)
    return docs


def enum_table(repo):
    tab = {}

    def walk(n):
        if n.get("kind") == "EnumConstantDecl":
            v = [c for c in n.get("inner", []) if c.get("kind") == "ConstantExpr"]
            if v and "value" in v[0]:
                tab[n["name"]] = int(v[0]["value"])
        for c in n.get("inner", []):
            walk(c)
    for d in clang_json(repo, "include/multi_buffer.h"):
        walk(d)
    return tab


def width(n):
    t = ctype(n).replace("const ", "").strip()
    table = {"unsigned long": (64, False), "unsigned long long": (64, False), "uint64_t": (64, False), "size_t": (64, False),
             "unsigned int": (32, False), "uint32_t": (32, False), "int": (32, True), "long": (64, True),
             "unsigned char": (8, False), "uint8_t": (8, False), "_Bool": (1, False)}
    table.update(ENUM_T)
    if t.startswith("enum "):
        t = t[5:]
    if t not in table:
        raise NoFit("type " + t)
    return table[t]


class Tr:
    base = False

    def __init__(self, enums):
        self.enums = enums

    def const(self, n):
        k = n.get("kind")
        if k == "IntegerLiteral":
            return int(n["value"])
        if k == "DeclRefExpr" and n.get("referencedDecl", {}).get("kind") == "EnumConstantDecl":
            return self.enums.get(n["referencedDecl"]["name"])
        if k in ("ParenExpr", "ConstantExpr"):
            return self.const(kids(n)[0])
        if k in ("ImplicitCastExpr", "CStyleCastExpr") and n.get("castKind") in ("IntegralCast", "NoOp"):
            v = self.const(kids(n)[0])
            if v is None:
                return None
            b, sg = width(n)
            v %= 1 << b
            return v - (1 << b) if sg and v >= 1 << (b - 1) else v
        if k == "UnaryOperator" and n.get("opcode") in ("-", "~"):
            v = self.const(kids(n)[0])
            if v is None:
                return None
            b, sg = width(n)
            v = -v if n["opcode"] == "-" else ~v
            return v if sg else v % (1 << b)
        if k == "BinaryOperator":
            a, b_ = (self.const(c) for c in kids(n))
            if a is None or b_ is None:
                return None
            bits, sg = width(n)
            try:
                v = {"+": a + b_, "-": a - b_, "*": a * b_, "&": a & b_, "|": a | b_, "<<": a << b_, ">>": a >> b_}[n["opcode"]]
            except (KeyError, ValueError):
                return None
            if sg:
                return v if -(1 << (bits - 1)) <= v < 1 << (bits - 1) else None
            return v % (1 << bits)
        return None

    def member(self, n):
        """`ctx-><name>` -> name, or None"""
        n = strip(n) if n.get("kind") == "ParenExpr" else n
        if n.get("kind") != "MemberExpr" or not n.get("isArrow"):
            return None
        b = strip(kids(n)[0])
        if b.get("kind") == "DeclRefExpr" and b["referencedDecl"]["name"] == "ctx":
            return n.get("name")
        return None

    def expr(self, n):
        k = n.get("kind")
        c = self.const(n)
        if c is not None:
            bits, sg = width(n)
            return ".lit %d" % (c % (1 << (64 if sg else bits)) if c < 0 else c)
        if k == "ParenExpr":
            return self.expr(kids(n)[0])
        if k == "DeclRefExpr":
            nm = n["referencedDecl"]["name"]
            if nm == "flags" and width(n) == (32, False):
                return ".flags"
            if nm == "len" and width(n) == (32, False):
                return ".len"
            raise NoFit("variable " + nm)
        if k == "MemberExpr":
            f = self.member(n)
            if f in FIELDS and width(n) == (FIELDS[f][1], False):
                return "(.fld .%s)" % FIELDS[f][0]
            raise NoFit("field " + str(f))
        if k in ("ImplicitCastExpr", "CStyleCastExpr"):
            ck = n.get("castKind")
            inner = kids(n)[0]
            if ck in ("LValueToRValue", "NoOp"):
                return self.expr(inner)
            if ck == "IntegralCast":
                bits, sg = width(n)
                ib, isg = width(inner)
                if sg or isg:
                    raise NoFit("signed conversion of a non-constant")
                return self.expr(inner) if bits >= ib else "(.trunc %d (%s))" % (bits, self.expr(inner))
            raise NoFit("cast " + str(ck))
        if k == "UnaryOperator" and n.get("opcode") == "!":
            return "(.lnot (%s))" % self.expr(kids(n)[0])
        if k == "BinaryOperator":
            op = n["opcode"]
            a, b = kids(n)
            if op in ("&&", "||"):
                return "(.%s (%s) (%s))" % ("land" if op == "&&" else "lor", self.expr(a), self.expr(b))
            if op in ("<", "==", "!=", ">", ">=", "<="):
                if width(a)[1] or width(b)[1]:
                    raise NoFit("signed comparison")
                # `e == 0` is read as `!e`, `e != 0` as `!!e` (same 0/1 value); `a > b` as `b < a`, `a >= b` as `!(a < b)`
                if op in ("==", "!=") and 0 in (self.const(a), self.const(b)):
                    e = self.expr(b if self.const(a) == 0 else a)
                    return "(.lnot (%s))" % e if op == "==" else "(.lnot (.lnot (%s)))" % e
                ea, eb = self.expr(a), self.expr(b)
                return {"<": "(.lt (%s) (%s))" % (ea, eb), "==": "(.eq (%s) (%s))" % (ea, eb),
                        "!=": "(.lnot (.eq (%s) (%s)))" % (ea, eb), ">": "(.lt (%s) (%s))" % (eb, ea),
                        ">=": "(.lnot (.lt (%s) (%s)))" % (ea, eb), "<=": "(.lnot (.lt (%s) (%s)))" % (eb, ea)}[op]
            bits, sg = width(n)
            if sg:
                raise NoFit("signed arithmetic on a non-constant")
            if op == "%":
                cb = self.const(b)
                if cb is None or cb <= 0 or cb & (cb - 1):
                    raise NoFit("operator % by a non-power of two")
                return "(.and (%s) (.lit %d))" % (self.expr(a), cb - 1)      # x mod 2^k = x & (2^k - 1), unsigned
            names = {"+": "add", "-": "sub", "&": "and", "|": "or"}
            if op not in names:
                raise NoFit("operator " + op)
            e = "(.%s (%s) (%s))" % (names[op], self.expr(a), self.expr(b))
            return "(.trunc %d %s)" % (bits, e) if (op in "+-" and bits < 64) else e
        if k == "ConditionalOperator":
            c_, a, b = kids(n)
            return "(.ite (%s) (%s) (%s))" % (self.expr(c_), self.expr(a), self.expr(b))
        raise NoFit("expression " + str(k))

    def pure(self, n):
        """the expression reads parameters and constants only"""
        if n.get("kind") == "MemberExpr":
            return False
        if n.get("kind") == "DeclRefExpr" and n.get("referencedDecl", {}).get("kind") not in ("ParmVarDecl", "EnumConstantDecl"):
            return False
        if n.get("kind") == "CallExpr":
            return False
        return all(self.pure(c) for c in kids(n))

    def simple(self, n, guard=None):
        """one store / call -> statement text (optionally guarded)"""
        k = n.get("kind")
        g = (lambda plain, guarded: guarded if guard else plain)
        if k == "BinaryOperator" and n.get("opcode") == "=":
            lhs, rhs = kids(n)
            f = self.member(lhs)
            if f == "error":
                v = self.const(rhs)
                if v is None or guard:
                    raise NoFit("error store")
                return ".setErr (%d)" % v
            if f == "incoming_buffer":
                r = strip(rhs)
                if guard or r.get("kind") != "DeclRefExpr" or r["referencedDecl"]["name"] != "buffer":
                    raise NoFit("incoming_buffer store")
                return ".setInPtr"
            if f in FIELDS:
                e = self.expr(rhs)
                return g(".set .%s (%s)" % (FIELDS[f][0], e), ".gset (%s) .%s (%s)" % (guard, FIELDS[f][0], e))
            raise NoFit("store to " + str(f))
        if k == "CompoundAssignOperator":
            lhs, rhs = kids(n)
            f = self.member(lhs)
            op = n.get("opcode", "")[:-1]
            names = {"+": "add", "-": "sub", "&": "and", "|": "or"}
            if f not in FIELDS or op not in names:
                raise NoFit("compound assignment")
            cw = n.get("computeResultType", {}).get("desugaredQualType") or n.get("computeResultType", {}).get("qualType", "")
            bits = 64 if "long" in cw or "64" in cw else 32
            e = "(.%s (.fld .%s) (%s))" % (names[op], FIELDS[f][0], self.expr(rhs))
            if bits < 64 and op in "+-":
                e = "(.trunc %d %s)" % (bits, e)
            return g(".set .%s %s" % (FIELDS[f][0], e), ".gset (%s) .%s %s" % (guard, FIELDS[f][0], e))
        if k == "CallExpr" and callee(n) == "hash_init_digest":
            if not guard:
                raise NoFit("unguarded digest init")
            return ".ginit (%s)" % guard
        raise NoFit("statement " + str(k))

    def has_call(self, n, rx):
        if n.get("kind") == "CallExpr" and re.search(rx, callee(n) or ""):
            return True
        return any(self.has_call(c, rx) for c in kids(n))

    ORDER = [".rej", ".ginit", ".gset", ".setErr", ".setInPtr", ".set .inlen", ".set .status", ".set .plen", ".set .total",
             ".tailTopUp", ".tailCalls", ".tailRet", ".unsupported"]

    def reorder(self, out):
        """adjacent stores to different fields whose right-hand sides do not read the other's field commute: bring them
        into the order in which today's source writes them (a sound normalisation; everything else keeps its place)"""
        def info(t):
            m = re.match(r"\.set \.(\w+) (.*)$", t)
            if m:
                return ("set", m.group(1), set(re.findall(r"\.fld \.(\w+)", m.group(2))))
            if t.startswith(".setErr"):
                return ("set", "error", set())
            if t == ".setInPtr":
                return ("set", "inptr", set())
            return None

        def key(t):
            for i, k in enumerate(self.ORDER):
                if t.startswith(k):
                    return i
            return len(self.ORDER)
        changed = True
        while changed:
            changed = False
            for i in range(len(out) - 1):
                a, b = info(out[i]), info(out[i + 1])
                if a and b and a[1] != b[1] and a[1] not in b[2] and b[1] not in a[2] and key(out[i]) > key(out[i + 1]):
                    out[i], out[i + 1] = out[i + 1], out[i]
                    changed = True
        return out

    def stmts(self, body):
        return self.reorder(self.stmts_raw(body))

    def stmts_raw(self, body):
        out = []
        for s in kids(body):
            try:
                k = s.get("kind")
                if k == "IfStmt":
                    parts = kids(s)
                    if self.base and len(parts) == 3:
                        chain, consts, node = [], [], s
                        while node.get("kind") == "IfStmt":
                            ps = kids(node)
                            c0 = strip(ps[0])
                            ok = c0.get("kind") == "BinaryOperator" and c0.get("opcode") == "==" and \
                                strip(kids(c0)[0]).get("referencedDecl", {}).get("name") == "flags" and self.const(kids(c0)[1]) is not None
                            if not ok:
                                raise NoFit("else chain over something else than flags == constant")
                            consts.append(self.const(kids(c0)[1]))
                            chain.append(ps[1])
                            node = ps[2] if len(ps) == 3 else {}
                        if node or len(set(consts)) != len(consts):
                            raise NoFit("else chain with a final else / repeated constants")
                        for then in chain:
                            tb = kids(then) if then.get("kind") == "CompoundStmt" else [then]
                            if all(t.get("kind") == "CallExpr" and re.fullmatch(r"\w+_(init|update|final)", callee(t) or "") for t in tb):
                                out.append(".tailCalls")
                            else:
                                raise NoFit("body of the flags dispatch")
                        continue
                    if len(parts) != 2:
                        raise NoFit("if with else")
                    cond, then = parts
                    tb = kids(then) if then.get("kind") == "CompoundStmt" else [then]
                    if self.has_call(then, r"_mb_mgr_submit_|memcpy"):
                        out.append(".tailTopUp")
                        continue
                    if len(tb) == 2 and tb[1].get("kind") == "ReturnStmt" and tb[0].get("kind") == "BinaryOperator" \
                            and self.member(kids(tb[0])[0]) == "error":
                        r = strip(kids(tb[1])[0])
                        code = self.const(kids(tb[0])[1])
                        if r.get("kind") != "DeclRefExpr" or r["referencedDecl"]["name"] != "ctx" or code is None:
                            raise NoFit("rejection body")
                        out.append(".rej (%s) (%d)" % (self.expr(cond), code))
                        continue
                    if self.base and self.pure(cond) and all(t.get("kind") == "CallExpr" and re.fullmatch(r"\w+_(init|update|final)", callee(t) or "")
                                                           for t in tb):
                        out.append(".tailCalls")
                        continue
                    if not self.pure(cond):
                        raise NoFit("guard reads the context")
                    g = self.expr(cond)
                    for t in tb:
                        out.append(self.simple(t, guard=g))
                    continue
                if k == "ReturnStmt":
                    r = strip(kids(s)[0])
                    if r.get("kind") == "CallExpr" and re.fullmatch(r"\w+_ctx_mgr_resubmit", callee(r) or ""):
                        out.append(".tailRet")
                        continue
                    if self.base and r.get("kind") == "DeclRefExpr" and r["referencedDecl"]["name"] == "ctx":
                        out.append(".tailRet")
                        continue
                    raise NoFit("return")
                if k == "NullStmt":
                    continue
                out.append(self.simple(s))
            except NoFit as e:
                out.append('.unsupported "%s"' % str(e).replace('"', "'")[:80])
            except Exception as e:
                out.append('.unsupported "translator: %s"' % type(e).__name__)
        return out


def ctx_files(repo):
    fs = []
    for p in sorted(glob.glob(os.path.join(repo, "*_mb", "*_ctx_*.c"))):
        b = os.path.basename(p)
        if b.endswith("_base.c") or b.endswith("_base_aliases.c"):
            continue
        m = re.search(r"^(_\w+_ctx_mgr_submit_\w+)\(", open(p).read(), flags=re.M)
        if m:
            fs.append((os.path.relpath(p, repo), m.group(1)))
    return fs


def base_files(repo):
    fs = []
    for p in sorted(glob.glob(os.path.join(repo, "*_mb", "*_ctx_base.c"))):
        m = re.search(r"^(_\w+_ctx_mgr_submit_base)\(", open(p).read(), flags=re.M)
        if m:
            fs.append((os.path.relpath(p, repo), m.group(1)))
    return fs


def main(argv=None):
    argv = argv or sys.argv[1:]
    repo, lean = argv[0], argv[1]
    tr = Tr(enum_table(repo))
    rows = []
    nsimd = len(ctx_files(repo))
    for rel, fn in ctx_files(repo) + base_files(repo):
        tr.base = fn.endswith("_base")
        try:
            body = None
            for d in clang_json(repo, rel, fn):
                if d.get("kind") == "FunctionDecl" and d.get("name") == fn:
                    cs = [c for c in kids(d) if c.get("kind") == "CompoundStmt"]
                    if cs:
                        body = cs[0]
            prog = tr.stmts(body) if body is not None else ['.unsupported "no definition"']
        except NoFit as e:
            prog = ['.unsupported "%s"' % str(e).replace('"', "'")[:80]]
        rows.append((rel, fn, prog))
    out = ["import IsalVerif.Impl.SubmitC",
           "/-! GENERATED by tools/gen_submit.py from the current tree: bookkeeping prefix of every SIMD-family submit. Do not edit. -/",
           "namespace IsalVerif.Gen.SubmitPrefix", "open IsalVerif.SubmitC", ""]
    names = []
    for k, (rel, fn, prog) in enumerate(rows):
        names.append("s%d" % k)
        out.append("def s%d : Src := { file := \"%s\", fn := \"%s\", prog := [\n  %s] }" % (k, rel, fn, ",\n  ".join(prog)))
    out += ["", "def all : List Src := [%s]" % ", ".join(names[:nsimd]), "",
            "def allBase : List Src := [%s]" % ", ".join(names[nsimd:]), "", "end IsalVerif.Gen.SubmitPrefix"]
    dst = os.path.join(lean, "IsalVerif", "Gen", "SubmitPrefix.lean")
    txt = "\n".join(out) + "\n"
    if not os.path.exists(dst) or open(dst).read() != txt:
        open(dst, "w").write(txt)
    uns = sum(1 for _, _, p in rows for s in p if s.startswith(".unsupported"))
    print("submit prefix: %d functions, %d unsupported statements -> %s" % (len(rows), uns, dst))
    return rows


if __name__ == "__main__":
    main()
