"""hash_pad T-route (tools/gen_hashpad.py -> Gen/HashPad.lean -> GenProps/HashPad.lean) plus its correspondence run:
the real `hash_pad` of every context-layer file (the .c file is #included by harness/drv_hashpad.c) against the model's
`hashPad` (Lean driver op `PAD`) on boundary totals.  Used by the C01, C15 and C20 checks."""
import hashlib, json, os, subprocess, sys
from concurrent.futures import ThreadPoolExecutor
sys.path.insert(0, os.path.dirname(os.path.abspath(__file__)))
import vlib, gen_hashpad

THMS = ["IsalVerif.GenProps.HashPad.all_canon", "IsalVerif.GenProps.HashPad.all_count",
        "IsalVerif.GenProps.HashPad.hashpad_current", "IsalVerif.GenProps.HashPad.hashpad_current_junk", "IsalVerif.GenProps.HashPad.hashpad_is_standard",
        "IsalVerif.GenProps.HashPad.specOf_is_standard", "IsalVerif.PadC.skeleton_correct",
        "IsalVerif.PadC.canon64", "IsalVerif.PadC.canon128", "IsalVerif.PadC.natLE_bswap"]
BLOCK = {"sha1": 64, "sha256": 64, "sha512": 128, "md5": 64, "sm3": 64}


def totals(tier):
    res = [0, 1, 8, 54, 55, 56, 57, 62, 63, 64, 65, 110, 111, 112, 113, 118, 119, 120, 121, 126, 127, 128, 129, 183, 184, 191, 192, 239, 240, 247, 248, 255]
    bases = [0, 1 << 29, (1 << 29) - 256, 1 << 32, (1 << 32) - 256, (1 << 32) + (1 << 29), 1 << 35, 1 << 53, (1 << 61) - 256, 1 << 61, (1 << 64) - 256]
    if tier != "quick":
        res = list(range(256))
        bases += [(1 << k) - 256 for k in range(30, 64)] + [1 << k for k in range(30, 64)]
    out = []
    for b in bases:
        for r in res:
            t = b + r
            if 0 <= t < 1 << 64:
                out.append(t)
    return sorted(set(out))


def build_drv(src, b, rel, alg):
    h = hashlib.sha256(open(os.path.join(vlib.HARNESS, "drv_hashpad.c"), "rb").read() + rel.encode()).hexdigest()[:12]
    out = os.path.join(b, "drv_hashpad.%s.%s" % (rel.replace("/", "_"), h))
    if not os.path.exists(out):
        tmp = out + ".tmp%d" % os.getpid()
        cmd = ["gcc", "-O1", "-g", "-I", os.path.join(src, "include"), "-I", src, "-I", os.path.join(src, os.path.dirname(rel)),
               '-DCTXFILE="%s"' % os.path.join(src, rel), "-DPADB=%d" % BLOCK[alg], "-Wl,--allow-multiple-definition",
               "-o", tmp, os.path.join(vlib.HARNESS, "drv_hashpad.c"), os.path.join(b, "isa-l_crypto.a")]
        r = vlib.run(cmd)
        if r.returncode:
            return None, r.stderr[-600:]
        os.replace(tmp, out)
    return out, ""


def correspond(b, rows, tier, only=None):
    """returns list of (rel, alg, diffs, monitors, n) ; diffs = [(total, fill, impl, model)]"""
    src = os.path.join(b, "src")
    ts = totals(tier)
    fills = [0, 0xA7] if tier == "quick" else [0, 0xA7, 0xFF, 0x31]
    cases = [(t, f) for t in ts for f in fills]
    if only:
        cases = [only]
    inp = "".join("%d %d\n" % c for c in cases)
    model = {}
    for alg in sorted(set(a for _, a, _ in rows)):
        m = subprocess.run([vlib.MODEL_BIN], input="".join("PAD %s %d %d\n" % (alg, t, f) for t, f in cases), capture_output=True, text=True)
        model[alg] = [l for l in m.stdout.split("\n") if l]

    def one(row):
        rel, alg, _ = row
        drv, err = build_drv(src, b, rel, alg)
        if drv is None:
            return (rel, alg, [], ["CRASH harness compile failed: " + err[-200:]], 0)
        r = subprocess.run([drv], input=inp, capture_output=True, text=True)
        lines = [l for l in r.stdout.split("\n") if l]
        mons = [l for l in lines if l.startswith("MONITOR")]
        if r.returncode != 0:
            mons.append("CRASH exit=%d" % r.returncode)
        il = [l for l in lines if l.startswith("PAD")]
        ml = model[alg]
        diffs = [(cases[i][0], cases[i][1], a[:300], m[:300]) for i, (a, m) in enumerate(zip(il, ml)) if a != m][:5]
        if len(il) != len(ml) and not diffs:
            diffs.append((-1, -1, "lines=%d" % len(il), "lines=%d" % len(ml)))
        return (rel, alg, diffs, mons, len(il))

    with ThreadPoolExecutor(max_workers=12) as ex:
        return list(ex.map(one, rows)), len(cases)


def obligations(chk, tier):
    """regenerate, re-prove, correspond.  Records obligations / violations on chk."""
    b = vlib.build_repo.get_build("default")
    src = os.path.join(b, "src")
    try:
        rows = gen_hashpad.main([src, vlib.LEAN])
        gen_err = ""
    except Exception as e:
        rows, gen_err = [], str(e)[:300]
    chk.oblige("translator: hash_pad of %d context-layer files -> Gen/HashPad.lean" % len(rows), bool(rows) and not gen_err, gen_err)
    failed = vlib.lean_obligations(chk, "IsalVerif.GenProps.HashPad", THMS) if rows else [("gen_hashpad", gen_err)]
    res, ncases = correspond(b, rows, tier) if rows else ([], 0)
    witness = {}
    for rel, alg, diffs, mons, n in res:
        ok = not diffs and not mons
        chk.oblige("hash_pad correspondence %s (real C function vs model hashPad, %d totals x fills)" % (rel, n), ok,
                   "diffs=%d monitors=%d" % (len(diffs), len(mons)))
        if not ok:
            witness[rel] = (alg, diffs, mons)
    for rel, (alg, diffs, mons) in witness.items():
        d = diffs[0] if diffs else None
        chk.violation("hash_pad of %s differs from the standard padding%s" % (rel, (" at total=%d" % d[0]) if d else (": " + mons[0][:80])),
                      {"kind": "hashpad", "file": rel, "alg": alg, "total": d[0] if d else None, "fill": d[1] if d else None,
                       "impl": d[2] if d else None, "model": d[3] if d else None, "monitors": mons[:3],
                       "broken_obligations": [f[0] for f in failed],
                       "note": "harness/drv_hashpad.c #includes the file and calls its hash_pad(buf,total) with buf[j]=(j*37+fill)&255; "
                               "the model side is `PAD <alg> <total> <fill>` of the Lean driver"},
                      match={"file": rel, "monitor": "hashpad"})
    if failed and not witness:
        for name, detail in failed:
            chk.violation("Lean obligation no longer checks: %s" % name,
                          {"kind": "obligation", "obligation": name, "detail": detail,
                           "note": "hash_pad of some context-layer file is no longer the proved skeleton; the correspondence run over "
                                   "%d (total, fill) cases per file found no differing output" % ncases}, no_input=True)
    chk.cov["hash_pad"] = {"files": len(rows), "cases_per_file": ncases, "theorems": THMS}
    return not failed and not witness


def replay(rp):
    b = vlib.build_repo.get_build("default")
    rows = [(rp["file"], rp["alg"], None)]
    res, _ = correspond(b, rows, "quick", only=(int(rp["total"]), int(rp["fill"])) if rp.get("total") is not None else None)
    bad = [r for r in res if r[2] or r[3]]
    print("replay: hash_pad %s -> diffs=%s monitors=%s" % (rp["file"], res[0][2][:1], res[0][3][:1]))
    return 1 if bad else 0
