#!/usr/bin/env python3
"""Translator (T-route) for C12: regenerates lean/IsalVerif/Gen/Dispatch.lean from the disassembly of
the library built from the current tree: the 64 resolver programs `<entry>_dispatch_init`, their
candidate target symbols, and for every candidate the set of ISA classes reachable from it
(through internal calls).  Anything that does not fit the 14 instruction forms is emitted as
`.unsupported`, which makes the Lean check fail rather than being silently skipped."""
import os, re, sys, json
sys.path.insert(0, os.path.dirname(os.path.abspath(__file__)))
import build_repo, disasm, vlib

REG = {"rax": "a", "eax": "a", "rbx": "b", "ebx": "b", "rcx": "c", "ecx": "c", "rdx": "d", "edx": "d",
       "rdi": "di", "edi": "di", "rsi": "si", "esi": "si"}
FAM_RE = re.compile(r"_(base|sse_ni|avx512_ni|sb_sse4|sse4|sse|avx_gen2|avx_gen4|vaes_avx512|vaes|avx512|avx2|avx|x4|x8|00|04)(_nt)?$")
ISA_LEAN = {"sse4_1": "sse4_1", "sse4_2": "sse4_2"}

GROUPS = [  # entry points that operate on one shared object must bind to the same family
    ("sha1", r"^_sha1_ctx_mgr_"), ("sha256", r"^_sha256_ctx_mgr_"), ("sha512", r"^_sha512_ctx_mgr_"),
    ("md5", r"^_md5_ctx_mgr_"), ("sm3", r"^_sm3_ctx_mgr_"),
    ("gcm128", r"^_aes_gcm_(precomp|init|enc|dec)_128"), ("gcm256", r"^_aes_gcm_(precomp|init|enc|dec)_256"),
    ("mh_sha1", r"^_mh_sha1_(update|finalize)$"), ("mh_sha256", r"^_mh_sha256_(update|finalize)$"),
    ("mh_sha1_murmur", r"^_mh_sha1_murmur3_x64_128_(update|finalize)$"),
]
# entry points whose header documents "@requires SSE4.1 and AESNI" (and PCLMULQDQ for GCM): no base version exists
AES_MIN = r"^_?(aes_|XTS_AES|_aes_|_XTS_AES)"


def isa_lean(c):
    if c.startswith("unknown"):
        return ".unknown"
    return "." + c


def translate(A, objname, entry):
    o = A.objs[objname]
    di = o.symbols.get(entry + "_dispatch_init")
    cell = o.symbols.get(entry + "_dispatched")
    if not di or not cell:
        return None
    ins, calls, tails, ind, bad = A.function(objname, di[0], di[1])
    addrs = sorted(ins)
    idx = {a: i for i, a in enumerate(addrs)}
    prog, syms = [], []

    def symid(name):
        if name not in syms:
            syms.append(name)
        return syms.index(name)

    for a in addrs:
        i = ins[a]
        mn, ops = i.mnem, i.ops
        t = [x.strip() for x in ops.split(",")] if ops else []
        out = None
        if mn in ("push", "pop") and t and t[0] in REG:
            out = ".%s .%s" % (mn, REG[t[0]])
        elif mn == "mov" and len(t) == 2 and t[0] in REG and re.match(r"^0x[0-9a-f]+$|^\d+$", t[1]):
            out = ".movImm .%s %d" % (REG[t[0]], int(t[1], 0))
        elif mn == "mov" and len(t) == 2 and t[0] in REG and t[1] in REG:
            out = ".movRR .%s .%s" % (REG[t[0]], REG[t[1]])
        elif mn == "mov" and len(t) == 2 and t[0].startswith("QWORD PTR [rip") and t[1] in REG and i.reloc:
            # the only store: must hit this entry's dispatch cell
            kind, sym, add, _ = i.reloc
            ok = False
            if sym == entry + "_dispatched" and add == -4:
                ok = True
            elif sym == cell[0] and add + 4 == cell[1]:
                ok = True
            out = ".store .%s" % REG[t[1]] if ok else None
        elif mn == "lea" and len(t) == 2 and t[0] in REG and "[rip" in t[1] and i.reloc and i.reloc[2] == -4:
            out = ".lea .%s %d" % (REG[t[0]], symid(i.reloc[1]))
        elif mn == "cpuid":
            out = ".cpuid"
        elif mn == "xgetbv":
            out = ".xgetbv"
        elif mn == "xor" and len(t) == 2 and t[0] == t[1] and t[0] in REG:
            out = ".xorSelf .%s" % REG[t[0]]
        elif mn in ("and", "test", "cmp") and len(t) == 2 and t[0] in REG and re.match(r"^0x[0-9a-f]+$|^\d+$", t[1]):
            k = int(t[1], 0) & 0xFFFFFFFF
            out = ".%sImm .%s %d" % (mn, REG[t[0]], k)
        elif mn in ("je", "jz", "jne", "jnz", "jmp"):
            tg = A.target_of(objname, di[0], i)
            if tg[0] == "local" and tg[1] in idx:
                out = ".jmp %d" % idx[tg[1]] if mn == "jmp" else ".jz %s %d" % ("true" if mn in ("je", "jz") else "false", idx[tg[1]])
        elif mn in ("cmove", "cmovz", "cmovne", "cmovnz") and len(t) == 2 and t[0] in REG and t[1] in REG:
            out = ".cmov %s .%s .%s" % ("true" if mn in ("cmove", "cmovz") else "false", REG[t[0]], REG[t[1]])
        elif mn == "ret":
            out = ".ret"
        elif mn in ("endbr64", "nop"):
            out = ".jmp %d" % (idx[a] + 1)   # no effect
        if out is None:
            out = ".unsupported"
        prog.append(out)
    # the interface stub: `<e>_mbinit: [endbr64] call <e>_dispatch_init ; <e>: [endbr64] jmp [cell]`
    stub = "?"
    mb = o.symbols.get(entry + "_mbinit")
    if mb:
        code = o.insns[mb[0]]
        a = mb[1]
        seq = []
        for _ in range(4):
            if a not in code:
                break
            seq.append(code[a])
            a += code[a].size
        names = [s.mnem for s in seq if s.mnem != "endbr64"][:2]
        ok = names == ["call", "jmp"]
        if ok:
            c = [s for s in seq if s.mnem == "call"][0]
            tg = A.target_of(objname, mb[0], c)
            ok = (tg[0] == "local" and tg[1] == di[1]) or (tg[0] == "sym" and tg[1][2] == di[1])
            j = [s for s in seq if s.mnem == "jmp"][0]
            ok = ok and "[rip" in j.ops and j.reloc is not None and (j.reloc[1] == entry + "_dispatched" or (j.reloc[1] == cell[0] and j.reloc[2] + 4 == cell[1]))
        stub = "call;jmp[cell]" if ok else "unexpected"
    return prog, syms, stub


def main(out_path=None, variant="default", quiet=False):
    b = build_repo.get_build(variant)
    A = disasm.Archive(os.path.join(b, "objs"))
    cells = []
    for o in A.objs.values():
        for n in o.symbols:
            if n.endswith("_dispatched"):
                cells.append((o.name, n[:-11]))
    cells.sort(key=lambda c: c[1])
    allsyms = []
    entries = []
    memo = {}

    def isa_of(key):
        if key in memo:
            return memo[key]
        memo[key] = set()
        objn, sec, addr = key
        ins, calls, tails, ind, bad = A.function(objn, sec, addr)
        s = set()
        for i in ins.values():
            s |= disasm.isa_classes(i)
        if bad or ind:
            s.add("unknown:cfg")
        for (k, name) in list(calls) + list(tails):
            if k is not None:
                s |= isa_of(k)
            # external (libc) callees: memcpy/memset/... are baseline code
        memo[key] = s
        return s

    for objn, e in cells:
        r = translate(A, objn, e)
        if r is None:
            continue
        prog, syms, stub = r
        ids = []
        for s in syms:
            if s not in allsyms:
                allsyms.append(s)
            ids.append(allsyms.index(s))
        # renumber symbol ids in the program to global ids
        prog2 = []
        for ins in prog:
            m = re.match(r"^\.lea \.(\w+) (\d+)$", ins)
            if m:
                ins = ".lea .%s %d" % (m.group(1), ids[int(m.group(2))])
            prog2.append(ins)
        grp = next((g for g, rx in GROUPS if re.match(rx, e)), "")
        entries.append({"name": e, "obj": objn, "prog": prog2, "stub": stub, "group": grp,
                        "aesmin": bool(re.match(AES_MIN, e)), "cands": [allsyms[i] for i in ids]})
    need, fam = [], []
    famtags = []
    for s in allsyms:
        g = A.globals.get(s)
        classes = sorted(isa_of(g)) if g else ["unknown:undefined"]
        need.append(classes)
        m = FAM_RE.search(s)
        tag = m.group(1) if m else "?" + s
        if tag not in famtags:
            famtags.append(tag)
        fam.append(famtags.index(tag))
    L = []
    L.append("import IsalVerif.Impl.DispatchCheck")
    L.append("/-! GENERATED by tools/gen_dispatch.py from the disassembly of the current tree — do not edit. -/")
    L.append("namespace IsalVerif.Gen.Dispatch")
    L.append("open IsalVerif.Dispatch")
    L.append("")
    L.append("def symNames : List String := [%s]" % ", ".join('"%s"' % s for s in allsyms))
    L.append("def famTags : List String := [%s]" % ", ".join('"%s"' % s for s in famtags))
    L.append("def famTab : List Nat := [%s]" % ", ".join(str(x) for x in fam))
    L.append("def needTab : List (List Isa) := [")
    L.append(",\n".join("  [%s]" % ", ".join(isa_lean(c) for c in cl) for cl in need))
    L.append("]")
    L.append("def need (s : Nat) : List Isa := needTab.getD s [.unknown]")
    L.append("def famOf (s : Nat) : Nat := famTab.getD s 999")
    L.append("")
    L.append("structure Entry where")
    L.append("  name : String")
    L.append("  obj : String")
    L.append("  group : String")
    L.append("  aesMin : Bool      -- header documents '@requires SSE4.1 and AESNI' (no base implementation exists)")
    L.append("  stub : String")
    L.append("  prog : List Instr")
    L.append("")
    for k, e in enumerate(entries):
        L.append("def prog%d : List Instr := [%s]" % (k, ", ".join(e["prog"])))
    L.append("")
    L.append("def entries : List Entry := [")
    L.append(",\n".join('  ⟨"%s", "%s", "%s", %s, "%s", prog%d⟩' % (e["name"], e["obj"], e["group"], "true" if e["aesmin"] else "false", e["stub"], k)
                        for k, e in enumerate(entries)))
    L.append("]")
    L.append("")
    L.append("end IsalVerif.Gen.Dispatch")
    out_path = out_path or os.path.join(vlib.LEAN, "IsalVerif", "Gen", "Dispatch.lean")
    os.makedirs(os.path.dirname(out_path), exist_ok=True)
    txt = "\n".join(L) + "\n"
    old = open(out_path).read() if os.path.exists(out_path) else None
    if old != txt:
        open(out_path, "w").write(txt)
    info = {"entries": len(entries), "symbols": len(allsyms), "unsupported": sum(p.count(".unsupported") for e in entries for p in e["prog"]),
            "entries_detail": entries, "need": dict(zip(allsyms, need))}
    if not quiet:
        print("entries", info["entries"], "symbols", info["symbols"], "unsupported", info["unsupported"])
    return info


if __name__ == "__main__":
    main()
