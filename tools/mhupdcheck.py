"""mh update T-route (tools/gen_mhupdate.py -> Gen/MhUpdate.lean -> GenProps/MhUpdate.lean), used by C05 and C10."""
import os, re, sys
sys.path.insert(0, os.path.dirname(os.path.abspath(__file__)))
import vlib, gen_mhupdate, gen_mhfin, gen_murmur, gen_mhinit

THMS_TAIL = ["IsalVerif.GenProps.MhTail.all_canon", "IsalVerif.GenProps.MhTail.all_count", "IsalVerif.GenProps.MhTail.mhtail_current",
             "IsalVerif.MhTailC.canon_tail", "IsalVerif.MhTailC.tailBlocks_is_standard", "IsalVerif.GenProps.MhTail.mhtail_is_standard"]
THMS_MUR = ["IsalVerif.GenProps.Murmur.all_canon", "IsalVerif.GenProps.Murmur.both_present", "IsalVerif.GenProps.Murmur.murblock_current",
            "IsalVerif.GenProps.Murmur.murtail_current", "IsalVerif.GenProps.Murmur.murloop_current", "IsalVerif.MurC.canon_block_loop", "IsalVerif.MurC.canon_block_step", "IsalVerif.MurC.canon_tail_arith",
            "IsalVerif.MurC.murmurTail_eq"]
THMS_INIT = ["IsalVerif.GenProps.MhInit.all_canon", "IsalVerif.GenProps.MhInit.all_present", "IsalVerif.GenProps.MhInit.stitched_init_current",
             "IsalVerif.GenProps.MhInit.mh_init_current", "IsalVerif.MhInitC.canon_sha1", "IsalVerif.MhInitC.canon_sha256",
             "IsalVerif.MhInitC.canon_stitched"]
THMS_FIN = ["IsalVerif.GenProps.MhFin.all_canon", "IsalVerif.GenProps.MhFin.all_count", "IsalVerif.GenProps.MhFin.mhfin_current",
            "IsalVerif.GenProps.MhFin.stitched_present", "IsalVerif.GenProps.MhFin.blockbase_current",
            "IsalVerif.GenProps.MhFin.blockbase_present", "IsalVerif.MhFinC.canon_blockbase", "IsalVerif.MhFinC.canon_fin", "IsalVerif.MhFinC.mur_reads_buffered"]
THMS = ["IsalVerif.GenProps.MhUpdate.all_canon", "IsalVerif.GenProps.MhUpdate.all_count", "IsalVerif.GenProps.MhUpdate.stitched_present",
        "IsalVerif.GenProps.MhUpdate.mhupdate_current", "IsalVerif.MhC.canon_mh_update", "IsalVerif.MhC.mhSpec_absorb",
        "IsalVerif.GenProps.MhUpdate.mhupdate_absorbs"]


def obligations(chk, tier):
    b = vlib.build_repo.get_build("default")
    try:
        rows = gen_mhupdate.main([os.path.join(b, "src"), vlib.LEAN])
        gen_err = ""
    except Exception as e:
        rows, gen_err = [], str(e)[:300]
    chk.oblige("translator: %d instances of the mh_sha1 / mh_sha256 / stitched mh_sha1_murmur3 update template -> Gen/MhUpdate.lean" % len(rows), bool(rows) and not gen_err, gen_err)
    failed = vlib.lean_obligations(chk, "IsalVerif.GenProps.MhUpdate", THMS) if rows else [("gen_mhupdate", gen_err)]
    chk.cov["mh_update"] = {"functions": len(rows), "theorems": THMS}
    try:
        trows = gen_mhupdate.main_tail([os.path.join(b, "src"), vlib.LEAN])
        terr = ""
    except Exception as e:
        trows, terr = [], str(e)[:300]
    chk.oblige("translator: %d instances of the mh_sha1 / mh_sha256 tail function -> Gen/MhTail.lean" % len(trows), bool(trows) and not terr, terr)
    tfailed = vlib.lean_obligations(chk, "IsalVerif.GenProps.MhTail", THMS_TAIL) if trows else [("gen_mhupdate(tail)", terr)]
    chk.cov["mh_tail"] = {"functions": len(trows), "theorems": THMS_TAIL}
    try:
        frows = gen_mhfin.main([os.path.join(b, "src"), vlib.LEAN])
        ferr = ""
    except Exception as e:
        frows, ferr = [], str(e)[:300]
    chk.oblige("translator: %d instances of the mh_sha1 / mh_sha256 / stitched finalize function -> Gen/MhFin.lean" % len(frows), bool(frows) and not ferr, ferr)
    ffailed = vlib.lean_obligations(chk, "IsalVerif.GenProps.MhFin", THMS_FIN) if frows else [("gen_mhfin", ferr)]
    chk.cov["mh_finalize"] = {"functions": len(frows), "theorems": THMS_FIN}
    for name, detail in ffailed:
        chk.violation("Lean obligation no longer checks: %s" % name,
                      {"kind": "obligation", "obligation": name, "detail": detail,
                       "note": "a finalize function (what is handed to murmur3 / the multi-hash tail, which words are copied out) is no "
                               "longer the proved one; the implementation is searched by the correspondence sweep of this check"}, no_input=True)
    try:
        irows = gen_mhinit.main([os.path.join(b, "src"), vlib.LEAN])
        ierr = ""
    except Exception as e:
        irows, ierr = [], str(e)[:300]
    chk.oblige("translator: %d multi-hash init functions -> Gen/MhInit.lean" % len(irows), bool(irows) and not ierr, ierr)
    ifailed = vlib.lean_obligations(chk, "IsalVerif.GenProps.MhInit", THMS_INIT) if irows else [("gen_mhinit", ierr)]
    chk.cov["mh_init"] = {"functions": len(irows), "theorems": THMS_INIT}
    for name, detail in ifailed:
        chk.violation("Lean obligation no longer checks: %s" % name,
                      {"kind": "obligation", "obligation": name, "detail": detail,
                       "note": "an init function (zeroed context, initial interim digests, murmur seed words) is no longer the proved "
                               "one; the implementation is searched by the correspondence sweep of this check"}, no_input=True)
    mfailed = []
    if chk.pid == "C10":
        try:
            mrows = gen_murmur.main([os.path.join(b, "src"), vlib.LEAN])
            merr = ""
        except Exception as e:
            mrows, merr = [], str(e)[:300]
        chk.oblige("translator: arithmetic of %d murmur functions (block loop body, tail) -> Gen/Murmur.lean" % len(mrows), bool(mrows) and not merr, merr)
        mfailed = vlib.lean_obligations(chk, "IsalVerif.GenProps.Murmur", THMS_MUR) if mrows else [("gen_murmur", merr)]
        chk.cov["murmur_arith"] = {"functions": len(mrows), "frames_as_today": [bool(r[1]) for r in mrows], "theorems": THMS_MUR}
        for name, detail in mfailed:
            chk.violation("Lean obligation no longer checks: %s" % name,
                          {"kind": "obligation", "obligation": name, "detail": detail,
                           "note": "the murmur block / tail arithmetic (or the statements around it) is no longer the proved one; the "
                                   "implementation is searched by the correspondence sweep of this check (running murmur state after "
                                   "every update, final digest)"}, no_input=True)
    for name, detail in tfailed:
        chk.violation("Lean obligation no longer checks: %s" % name,
                      {"kind": "obligation", "obligation": name, "detail": detail,
                       "note": "a tail function (padding of the multi-hash stream) is no longer the proved one; the implementation is "
                               "searched by the correspondence sweep of this check"}, no_input=True)
    if failed:
        src = ("import IsalVerif.Gen.MhUpdate\nopen IsalVerif.MhC\n"
               "#eval (IsalVerif.Gen.MhUpdate.all.filter fun x => !decide (x.prog = canon)).map (·.fn)\n")
        path = os.path.join(vlib.scratch(), "mhupd_diff.lean")
        open(path, "w").write(src)
        vlib.lake_build(["IsalVerif.Gen.MhUpdate"])
        r = vlib.run(["lake", "env", "lean", path], cwd=vlib.LEAN)
        fns = re.findall(r'"(_mh_\w+)"', r.stdout)
        for f in fns or ["?"]:
            chk.violation("update function %s no longer the proved one" % f,
                          {"kind": "mh-update", "fn": f, "broken_obligations": [x[0] for x in failed],
                           "note": "the translated function differs from MhC.canon (or calls another family's block function); the "
                                   "implementation is searched by the correspondence sweep of this check"},
                          no_input=True, match={"fn": f, "monitor": "mh-update"})
    return not failed and not tfailed and not ffailed and not mfailed and not ifailed
