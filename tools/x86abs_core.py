"""X86Abs front end + python side of the certificate computation (C19 / C18).

  load_archive(build_dir)      -> Lib: objects, functions (CFG reachable sets), call graph
  Func.recs                    -> abstract instruction records (one per instruction, address order)
  analyse(lib)                 -> fixpoint, summaries of private-convention kernels, certificates
  collapse(func)               -> records after run-collapsing (what Lean sees)

The abstract transfer function `transfer` below is a line-by-line mirror of `X86Abs.step1` in
IsalVerif/Impl/X86Abs.lean; python only *proposes* certificates - Lean re-checks them in the kernel.
"""
import os, re, subprocess, sys, collections

sys.path.insert(0, os.path.dirname(os.path.abspath(__file__)))
import disasm
import x86tab
from x86tab import R64, RSP, RBP, Eff

SYSV_CLOBBER = x86tab.bits("rax", "rcx", "rdx", "rsi", "rdi", "r8", "r9", "r10", "r11")
CALLEE_SAVED = [R64.index(r) for r in ("rbx", "rbp", "r12", "r13", "r14", "r15")]
CALLEE_SAVED_SET = set(CALLEE_SAVED)
NORETURN = {"__stack_chk_fail", "abort", "__assert_fail", "exit", "_exit"}
# external (libc) functions the library calls: SysV summary assumed
LIBC = {"memcpy", "memset", "memmove", "memcmp", "usleep", "strlen", "__memcpy_chk", "__memset_chk",
        "__memmove_chk", "__stack_chk_fail"}


def is_data_in_text(name):
    """symbols in .text that are data, not code: NASM `slversion` records and the SM3 constant table"""
    return "slver" in name or name == "TABLE"


class Rec:
    """one abstract instruction record. kind:
       plain(w,sb) label(a) jmp(a) jcc(a) call(a=gid) tail(a=gid) tailind ret trap push(a) pushany pop(a)
       addrsp(a) andrsp(a=frame id,b=low mask) movrr(a,b) lea(a,b,c) load(a,b,c) store(a=base,b=disp,c=src)
       storek(a=base,b=disp,c=size) storeidx(a=base) storestatic(a=static id) leave forbidden unsupported"""
    __slots__ = ("kind", "w", "sb", "a", "b", "c", "addr", "text", "why", "n")

    def __init__(self, kind, w=0, sb=0, a=0, b=0, c=0, addr=None, text="", why="", n=1):
        self.kind, self.w, self.sb, self.a, self.b, self.c = kind, w, sb, a, b, c
        self.addr, self.text, self.why, self.n = addr, text, why, n

    def __repr__(self):
        return "%s:%s w=%x sb=%x a=%s b=%s c=%s  ; %s %s" % (
            "%x" % self.addr if self.addr is not None else "-", self.kind, self.w, self.sb, self.a, self.b, self.c,
            self.text, self.why)


class Func:
    def __init__(self, key):
        self.key = key            # (objname, section, addr)
        self.names = set()
        self.gid = None
        self.insns = {}           # addr -> Insn (CFG reachable)
        self.calls = []           # callee gids
        self.recs = []            # one record per instruction (+ labels)
        self.entry_label = None
        self.nlabels = 0
        self.problems = []
        self.exported = False     # default-visibility global symbol
        self.addr_taken = False   # referenced by a data relocation or lea (dispatch candidate / cell initialiser)
        self.called_from_c = False
        self.called_from_asm = False
        self.cls = "abi"          # abi | summary
        self.mask = SYSV_CLOBBER  # clobber summary
        self.cert = None          # label id -> state
        self.frames = {}          # frame id -> (k, m)
        self.fail = None

    @property
    def name(self):
        # prefer the global name without decoration, deterministic
        return sorted(self.names, key=lambda n: (len(n), n))[0] if self.names else "%s+0x%x" % (self.key[0], self.key[2])


class Lib:
    pass


def readelf_syms(path):
    """name -> (visibility, bind, type, size, section index) from readelf -sW"""
    out = subprocess.run(["readelf", "-sW", path], capture_output=True, text=True).stdout
    res = {}
    for line in out.split("\n"):
        f = line.split()
        if len(f) >= 8 and f[0].endswith(":") and f[0][:-1].isdigit():
            res[f[7]] = (f[5], f[4], f[3], int(f[2], 0) if not f[2].startswith("0x") else int(f[2], 16), f[6])
    return res


def readelf_sections(path):
    """list of (name, type, flags, size)"""
    out = subprocess.run(["readelf", "-SW", path], capture_output=True, text=True).stdout
    res = []
    for line in out.split("\n"):
        m = re.match(r"^\s*\[\s*(\d+)\]\s+(\S+)\s+(\S+)\s+([0-9a-f]+)\s+([0-9a-f]+)\s+([0-9a-f]+)\s+([0-9a-f]+)\s+(\S*)\s", line)
        if m and m.group(2) != "NULL":
            res.append((int(m.group(1)), m.group(2), m.group(3), int(m.group(6), 16), m.group(8)))
    return res


def data_relocs(path):
    """relocations outside .text that point at code: list of (section, offset, symbol, addend)"""
    out = subprocess.run(["readelf", "-rW", path], capture_output=True, text=True).stdout
    res = []
    sec = None
    for line in out.split("\n"):
        m = re.match(r"^Relocation section '\.rela(\S+)'", line)
        if m:
            sec = m.group(1)
            continue
        if sec is None or sec.startswith(".text") or sec.startswith(".eh_frame") or sec.startswith(".debug"):
            continue
        f = line.split()
        if len(f) >= 5 and f[2].startswith("R_X86_64"):
            sym = f[4]
            add = 0
            if len(f) >= 7 and f[5] in "+-":
                add = int(f[6], 16) * (1 if f[5] == "+" else -1)
            res.append((sec, int(f[0], 16), sym, add))
    return res


def build_cfg(A, objname, sec, entry):
    """CFG-reachable instructions of the function entered at (objname, sec, entry).
    Returns (insns, edges) where edges[addr] = ('fall',) | ('jmp', t) | ('jcc', t) | ('tail', key|None, name) |
    ('tailind', cell) | ('call', key|None, name) | ('callnoret', name) | ('ret',) | ('trap',) | ('bad', why)."""
    o = A.objs[objname]
    code = o.insns.get(sec, {})
    seen, edges = {}, {}
    work = [entry]

    def local_target(ins):
        t = A.target_of(objname, sec, ins)
        if t[0] == "local":
            return ("local", t[1])
        if t[0] == "sym":
            if t[1][0] == objname and t[1][1] == sec:
                return ("local", t[1][2])
            return ("far", t[1], t[2])
        if t[0] == "local_sec":
            if t[1] == sec:
                return ("local", t[2])
            return ("far", (objname, t[1], t[2]), None)
        if t[0] == "ext":
            return ("ext", t[1])
        return ("ind", t[1])

    while work:
        a = work.pop()
        while a not in seen:
            ins = code.get(a)
            if ins is None or ins.mnem in ("(bad)", ".byte"):
                edges[a] = ("bad", "no instruction at %x" % a)
                seen[a] = None
                break
            seen[a] = ins
            mn = ins.mnem
            nxt = ins.addr + ins.size
            if mn == "jmp":
                if "[" in ins.ops:
                    m = re.match(r"^QWORD PTR \[rip\+0x[0-9a-f]+\]$", ins.ops)
                    edges[a] = ("tailind", ins.reloc) if m and ins.reloc else ("bad", "indirect jmp " + ins.ops)
                    break
                t = local_target(ins)
                if t[0] == "local":
                    edges[a] = ("jmp", t[1])
                    work.append(t[1])
                elif t[0] == "far":
                    edges[a] = ("tail", t[1], t[2])
                elif t[0] == "ext":
                    edges[a] = ("tail", None, t[1])
                else:
                    edges[a] = ("bad", "indirect jmp " + ins.ops)
                break
            if mn in disasm.JCC:
                if mn in ("loop", "loope", "loopne"):
                    edges[a] = ("bad", "loop instruction")
                    break
                t = local_target(ins)
                if t[0] == "local":
                    edges[a] = ("jcc", t[1])
                    work.append(t[1])
                else:
                    edges[a] = ("bad", "jcc to another function")
                    break
            elif mn == "call":
                if "[" in ins.ops or ins.ops.split()[0] in x86tab.REG:
                    edges[a] = ("bad", "indirect call " + ins.ops)
                    break
                t = local_target(ins)
                if t[0] == "local":
                    edges[a] = ("call", (objname, sec, t[1]), None)
                elif t[0] == "far":
                    edges[a] = ("call", t[1], t[2])
                elif t[0] == "ext":
                    if t[1] in NORETURN:
                        edges[a] = ("callnoret", t[1])
                        break
                    edges[a] = ("call", None, t[1])
                else:
                    edges[a] = ("bad", "indirect call " + ins.ops)
                    break
            elif mn in ("ret", "retq"):
                edges[a] = ("ret",) if not ins.ops else ("bad", "ret imm")
                break
            elif mn in ("ud2", "hlt", "int3"):
                edges[a] = ("trap",)
                break
            elif mn in ("retf", "iret", "iretq", "syscall", "sysenter", "int", "sysret"):
                edges[a] = ("bad", mn)
                break
            else:
                edges[a] = ("fall",)
            a = nxt
    return {a: i for a, i in seen.items() if i is not None}, edges


def load_archive(build_dir):
    L = Lib()
    L.build_dir = build_dir
    objdir = os.path.join(build_dir, "objs")
    A = disasm.Archive(objdir)
    L.A = A
    L.objnames = sorted(A.objs)
    L.vis = {}        # obj -> name -> readelf symbol info
    L.is_c = {}       # obj -> compiled by gcc
    L.sections = {}
    L.datarel = {}
    for on in L.objnames:
        p = os.path.join(objdir, on)
        L.vis[on] = readelf_syms(p)
        L.sections[on] = readelf_sections(p)
        L.is_c[on] = any(s[1] == ".comment" for s in L.sections[on])
        L.datarel[on] = data_relocs(p)

    funcs = {}        # key -> Func
    L.ext = {}        # external name -> gid

    def get(key):
        f = funcs.get(key)
        if f is None:
            f = funcs[key] = Func(key)
        return f

    roots = []
    for on in L.objnames:
        o = A.objs[on]
        for n, (sec, addr, cls, typ, size) in o.symbols.items():
            if sec != ".text" or is_data_in_text(n):
                continue
            if cls == "T" or (cls == "t" and typ == "FUNC"):
                f = get((on, sec, addr))
                f.names.add(n)
                if cls == "T":
                    v = L.vis[on].get(n)
                    if v and v[0] == "DEFAULT":
                        f.exported = True
                roots.append(f.key)
        # code addresses stored in data (initial values of the dispatch cells point at <entry>_mbinit)
        for (dsec, off, sym, add) in L.datarel[on]:
            tgt = None
            if sym == ".text":
                tgt = (on, ".text", add)
            elif sym in o.symbols and o.symbols[sym][0] == ".text" and not is_data_in_text(sym):
                tgt = (on, ".text", o.symbols[sym][1] + add)
            elif sym in A.globals and A.globals[sym][1] == ".text" and not is_data_in_text(sym):
                g = A.globals[sym]
                tgt = (g[0], g[1], g[2] + add)
            if tgt is not None and tgt[2] in A.objs[tgt[0]].insns.get(".text", {}):
                f = get(tgt)
                f.addr_taken = True
                roots.append(tgt)

    work = list(roots)
    done = set()
    while work:
        key = work.pop()
        if key in done:
            continue
        done.add(key)
        f = get(key)
        f.insns, f.edges = build_cfg(A, *key)
        o = A.objs[key[0]]
        for nm in o.labels.get(key[1], {}).get(key[2], []):
            if not is_data_in_text(nm):
                f.names.add(nm)
        for a, e in f.edges.items():
            if e[0] in ("call", "tail") and e[1] is not None:
                g = get(e[1])
                if e[2]:
                    g.names.add(e[2])
                if e[1] not in done:
                    work.append(e[1])
        # code addresses taken by lea (dispatch candidates)
        for a, ins in f.insns.items():
            if ins.mnem == "lea" and ins.reloc and "rip" in ins.ops:
                sym = ins.reloc[1]
                r = A.resolve(key[0], sym) if not sym.startswith(".") else (key[0], sym, ins.reloc[2] + ins.size - ins.reloc[3])
                if r and r[1] == ".text" and not is_data_in_text(sym):
                    tgt = (r[0], r[1], r[2] if not sym.startswith(".") else r[2])
                    if not sym.startswith("."):
                        tgt = (r[0], r[1], r[2] + ins.reloc[2] + (ins.size - ins.reloc[3]))
                    if tgt[2] in A.objs[tgt[0]].insns.get(".text", {}):
                        g = get(tgt)
                        g.addr_taken = True
                        if not sym.startswith("."):
                            g.names.add(sym)
                        if tgt not in done:
                            work.append(tgt)
    # gids: deterministic order
    L.funcs = [funcs[k] for k in sorted(funcs)]
    for i, f in enumerate(L.funcs):
        f.gid = i
    L.bykey = {f.key: f for f in L.funcs}
    extn = set()
    for f in L.funcs:
        for a, e in f.edges.items():
            if e[0] in ("call", "tail") and e[1] is None:
                extn.add(e[2])
            if e[0] == "callnoret":
                extn.add(e[1])
    for i, n in enumerate(sorted(extn)):
        L.ext[n] = len(L.funcs) + i
    # who calls whom
    for f in L.funcs:
        for a, e in f.edges.items():
            if e[0] in ("call", "tail") and e[1] is not None:
                g = L.bykey[e[1]]
                if L.is_c[f.key[0]]:
                    g.called_from_c = True
                else:
                    g.called_from_asm = True
    # static (rip-relative) store targets get ids while records are built
    L.static_ids = {}
    L.static_list = []
    L.static_lea = []      # (function, object, target object, section, offset, symbol): address of writable static data taken
    for f in L.funcs:
        build_records(L, f)
    return L


def static_target(L, f, ins):
    """(object, section, offset, symbol) of the rip-relative memory operand of `ins`"""
    on = f.key[0]
    o = L.A.objs[on]
    if not ins.reloc:
        return (on, "?", 0, "?unrelocated")
    kind, sym, add, roff = ins.reloc
    delta = ins.size - roff          # displacement field is followed by (size - roff - 4) immediate bytes
    if sym.startswith("."):
        sec, off = sym, add + delta
        # name the datum: nearest symbol of that section at or below the offset
        best = None
        for n, (s, a, cls, typ, size) in o.symbols.items():
            if s == sec and a <= off and (best is None or a > best[1] or (a == best[1] and n < best[0])):
                best = (n, a)
        name = best[0] if best and best[1] == off else ("%s+0x%x" % (best[0], off - best[1]) if best else "%s+0x%x" % (sec, off))
        return (on, sec, off, name)
    off = add + delta
    r = L.A.resolve(on, sym)
    name = sym if off == 0 else "%s+0x%x" % (sym, off)
    if r is None:
        return (on, "?ext", off, name)
    return (r[0], r[1], r[2] + off, name)


def build_records(L, f):
    """one record per reachable instruction, in address order, plus label records"""
    A = L.A
    addrs = sorted(f.insns)
    targets = {f.key[2]}
    for a, e in f.edges.items():
        if e[0] in ("jmp", "jcc"):
            targets.add(e[1])
    labid = {}
    for a in addrs:
        if a in targets:
            labid[a] = len(labid)
    for t in targets:
        if t not in labid:
            f.problems.append("jump target %x is not an instruction" % t)
            labid[t] = len(labid)
    f.nlabels = len(labid)
    f.entry_label = labid[f.key[2]]
    recs = []
    prev_end, prev_falls = None, False
    for a in addrs:
        ins = f.insns[a]
        e = f.edges.get(a, ("bad", "no edge"))
        if prev_end is not None and prev_falls and prev_end != a:
            f.problems.append("fall-through into a gap before %x" % a)
        if a in labid:
            recs.append(Rec("label", a=labid[a], addr=a))
        elif prev_end is not None and not prev_falls:
            f.problems.append("unlabelled block at %x" % a)
        txt = (" ".join(ins.prefix + [ins.mnem]) + " " + ins.ops).strip()
        falls = True
        if e[0] == "fall":
            ef = x86tab.effect(ins)
            k = ef.kind
            if ins.mnem == "lea" and "rip" in ins.ops and ins.reloc:
                tgt = static_target(L, f, ins)
                wsec = {name for idx, name, typ, size, flags in L.sections.get(tgt[0], []) if "W" in flags and "A" in flags}
                if tgt[1] in wsec:
                    L.static_lea.append((f.name, f.key[0]) + tuple(tgt))
            if k == "storestatic":
                tgt = static_target(L, f, ins)
                sid = L.static_ids.get(tgt)
                if sid is None:
                    sid = L.static_ids[tgt] = len(L.static_list)
                    L.static_list.append(tgt)
                recs.append(Rec("storestatic", w=ef.w, a=sid, addr=a, text=txt))
            elif k == "andrsp":
                fid = sum(1 for r in recs if r.kind == "andrsp")
                recs.append(Rec("andrsp", a=fid, b=ef.a, addr=a, text=txt))
            else:
                recs.append(Rec(k, w=ef.w, sb=ef.sb, a=ef.a, b=ef.b, c=ef.c, addr=a, text=txt, why=ef.why))
        elif e[0] == "jmp":
            recs.append(Rec("jmp", a=labid[e[1]], addr=a, text=txt))
            falls = False
        elif e[0] == "jcc":
            recs.append(Rec("jcc", a=labid[e[1]], addr=a, text=txt))
        elif e[0] in ("call", "tail"):
            gid = L.bykey[e[1]].gid if e[1] is not None else L.ext[e[2]]
            recs.append(Rec(e[0], a=gid, addr=a, text=txt))
            if e[0] == "call":
                f.calls.append(gid)
            falls = e[0] == "call"
        elif e[0] == "callnoret":
            recs.append(Rec("trap", addr=a, text=txt))
            falls = False
        elif e[0] == "tailind":
            recs.append(Rec("tailind", addr=a, text=txt))
            falls = False
        elif e[0] == "ret":
            recs.append(Rec("ret", addr=a, text=txt))
            falls = False
        elif e[0] == "trap":
            recs.append(Rec("trap", addr=a, text=txt))
            falls = False
        else:
            recs.append(Rec("unsupported", addr=a, text=txt, why=e[1]))
            falls = False
        prev_end, prev_falls = a + ins.size, falls
    for a, e in f.edges.items():
        if e[0] == "bad" and a not in f.insns:
            f.problems.append(e[1])
    f.recs = recs


# ------------------------------------------------------------------------------------------------
# abstract domain (mirror of Impl/X86Abs.lean)
#   value: None (top) | (base, off)   base 0..15 = entry value of that register, 16+i = frame i
#   state: dict  key -> value ; key = register index 0..15 | ('s', base, off) for the qword at base+off
#   absent key = top

class CheckFail(Exception):
    pass


def stack_derived(v):
    return v is not None and (v[0] == RSP or v[0] >= 16)


def keep_value(v):
    """the certificate domain: stack-derived values with any offset, or the unmodified entry value of a
    callee-saved register (nothing else is needed to prove the exit condition)"""
    return v is not None and (stack_derived(v) or (v[1] == 0 and v[0] in CALLEE_SAVED_SET))


def kill_regs(st, mask):
    if mask:
        for r in range(16):
            if mask >> r & 1:
                st.pop(r, None)


def bnd(frames, base):
    """(lo, hi): entry_rsp + lo <= value(base) <= entry_rsp + hi ; None if unknown (mirror of X86Abs.bnd)"""
    if base == RSP:
        return (0, 0)
    if base >= 16 and (base - 16) in frames:
        k, m = frames[base - 16]
        return (k - m, k)
    return None


def upper_bound(frames, base, off):
    return bnd(frames, base)[1] + off


def kill_store(st, frames, base, off, size):
    """forget every tracked qword that is not provably disjoint from the write [base+off, base+off+size)
    (mirror of X86Abs.disjointFrom)"""
    l, h = bnd(frames, base)
    for key in [k for k in st if isinstance(k, tuple)]:
        _, b, o = key
        if b == base:
            keep = o + 8 <= off or off + size <= o
        else:
            bb = bnd(frames, b)
            keep = bb is not None and (bb[1] + o + 8 <= l + off or h + off + size <= bb[0] + o)
        if not keep:
            del st[key]


def check_above(frames, base, off, size, what):
    if bnd(frames, base) is None:
        raise CheckFail("%s through an unknown frame" % what)
    if upper_bound(frames, base, off) + size > 0:
        raise CheckFail("%s may write at or above the entry stack pointer (%s+%d, %d bytes)" % (what, base, off, size))


def transfer(r, st, ctx, strict=True):
    """abstract effect of record r on state st (modified in place). ctx: frames dict, summary(gid)->mask, mask (own).
    Returns True if control falls through. Raises CheckFail (only if strict) where the Lean checker returns false."""
    frames = ctx["frames"]

    def fail(msg):
        if strict:
            raise CheckFail(msg)

    def need_sp():
        v = st.get(RSP)
        if not stack_derived(v) or bnd(frames, v[0]) is None:
            fail("stack pointer unknown")
            return None
        return v

    k = r.kind
    if k == "plain":
        if r.w >> RSP & 1:
            fail("unrecognised write to rsp")
        for b in range(16):
            if r.sb >> b & 1 and stack_derived(st.get(b)):
                fail("store through %s (stack derived) folded into a plain record" % R64[b])
        kill_regs(st, r.w)
        return True
    if k in ("storeidx", "storestatic"):
        if r.w >> RSP & 1:
            fail("unrecognised write to rsp")
        kill_regs(st, r.w)
        return True
    if k in ("push", "pushany"):
        sp = need_sp()
        if sp is None:
            st.pop(RSP, None)
            return True
        b, o = sp
        val = st.get(r.a) if k == "push" else None
        try:
            check_above(frames, b, o - 8, 8, "push")
        except CheckFail as e:
            fail(str(e))
        kill_store(st, frames, b, o - 8, 8)
        st[RSP] = (b, o - 8)
        if val is not None:
            st[("s", b, o - 8)] = val
        return True
    if k == "pop":
        sp = need_sp()
        if sp is None:
            st.pop(r.a, None)
            st.pop(RSP, None)
            return True
        b, o = sp
        val = st.get(("s", b, o))
        if val is None:
            st.pop(r.a, None)
        else:
            st[r.a] = val
        st[RSP] = (b, o + 8)
        return True
    if k == "addrsp":
        sp = need_sp()
        if sp is None:
            return True
        st[RSP] = (sp[0], sp[1] + r.a)
        return True
    if k == "andrsp":
        sp = st.get(RSP)
        if sp is None or sp[0] != RSP:
            fail("and rsp: stack pointer is not entry-rsp based")
            st.pop(RSP, None)
            return True
        fid = 16 + r.a
        if r.a in frames and frames[r.a] != (sp[1], r.b):
            fail("and rsp: frame %d reached with different offsets %s vs %s" % (r.a, frames[r.a], (sp[1], r.b)))
        frames[r.a] = (sp[1], r.b)
        for key in [x for x in st]:
            v = st[key]
            if (isinstance(key, tuple) and key[1] == fid) or (v is not None and v[0] == fid):
                del st[key]
        st[RSP] = (fid, 0)
        return True
    if k == "movrr":
        v = st.get(r.b)
        if r.a == RSP and not stack_derived(v):
            fail("mov rsp,%s: value unknown" % R64[r.b])
        if v is None:
            st.pop(r.a, None)
        else:
            st[r.a] = v
        return True
    if k == "lea":
        v = st.get(r.b)
        if r.a == RSP and not stack_derived(v):
            fail("lea rsp,[%s%+d]: value unknown" % (R64[r.b], r.c))
        if v is None:
            st.pop(r.a, None)
        else:
            st[r.a] = (v[0], v[1] + r.c)
        return True
    if k == "load":
        v = st.get(r.b)
        val = None
        if stack_derived(v):
            val = st.get(("s", v[0], v[1] + r.c))
        if r.a == RSP and not stack_derived(val):
            fail("mov rsp,[%s%+d]: slot value unknown" % (R64[r.b], r.c))
        if val is None:
            st.pop(r.a, None)
        else:
            st[r.a] = val
        return True
    if k in ("store", "storek"):
        if r.w >> RSP & 1:
            fail("unrecognised write to rsp")
        v = st.get(r.a)
        if stack_derived(v):
            b, o = v[0], v[1] + r.b
            size = 8 if k == "store" else r.c
            try:
                check_above(frames, b, o, size, "store")
            except CheckFail as e:
                fail(str(e))
            src = st.get(r.c) if k == "store" else None
            kill_store(st, frames, b, o, size)
            if src is not None:
                st[("s", b, o)] = src
        else:
            fail("store record through a base that is not stack derived (should have been folded into plain)")
        kill_regs(st, r.w)
        return True
    if k == "leave":
        v = st.get(RBP)
        if not stack_derived(v):
            fail("leave: rbp unknown")
            st.pop(RSP, None)
            st.pop(RBP, None)
            return True
        b, o = v
        val = st.get(("s", b, o))
        st[RSP] = (b, o + 8)
        if val is None:
            st.pop(RBP, None)
        else:
            st[RBP] = val
        return True
    if k == "call":
        sp = need_sp()
        m = ctx["summary"](r.a)
        if sp is not None:
            b, o = sp
            try:
                check_above(frames, b, o - 8, 8, "call")
            except CheckFail as e:
                fail(str(e))
            # the callee may write anything below its entry stack pointer: keep only slots provably at or above rsp
            ub = upper_bound(frames, b, o)
            for key in [x for x in st if isinstance(x, tuple)]:
                _, kb, ko = key
                if kb == b:
                    keep = ko >= o
                else:
                    bb = bnd(frames, kb)
                    keep = bb is not None and bb[0] + ko >= ub
                if not keep:
                    del st[key]
        else:
            for key in [x for x in st if isinstance(x, tuple)]:
                del st[key]
        kill_regs(st, m & ~(1 << RSP))
        return True
    if k in ("ret", "tail", "tailind"):
        exit_check(st, ctx, r, fail)
        return False
    if k == "jmp":
        return False
    if k == "jcc":
        return True
    if k == "trap":
        return False
    if k == "label":
        return True
    if k in ("forbidden", "unsupported"):
        fail("%s instruction: %s %s" % (k, r.text, r.why))
        return True
    raise AssertionError(k)


def exit_check(st, ctx, r, fail):
    """at ret / tail jump: rsp and every register outside the function's clobber mask hold their entry values"""
    if st.get(RSP) != (RSP, 0):
        fail("%s with rsp = %s" % (r.kind, fmt_val(st.get(RSP))))
    if r.kind == "tail" and ctx["summary"](r.a) & ~ctx["mask"]:
        fail("tail jump to a function that clobbers more than this one may")
    for reg in range(16):
        if reg != RSP and not (ctx["mask"] >> reg & 1) and st.get(reg) != (reg, 0):
            fail("%s with %s = %s" % (r.kind, R64[reg], fmt_val(st.get(reg))))


def fmt_val(v):
    if v is None:
        return "unknown"
    b, o = v
    return "%s%+d" % ("entry_" + R64[b] if b < 16 else "frame%d" % (b - 16), o)


def join(a, b):
    return {k: v for k, v in a.items() if b.get(k) == v}


def prune(st):
    return {k: v for k, v in st.items() if keep_value(v)}


def init_state():
    return {r: (r, 0) for r in range(16)}


def blocks_of(f):
    """label id -> index of its label record"""
    return {r.a: i for i, r in enumerate(f.recs) if r.kind == "label"}


def fixpoint(f, summary, mask):
    """certificate: state at every label (pruned to the certificate domain). Returns (cert, frames, clobbered)."""
    pos = blocks_of(f)
    recs = f.recs
    frames = {}
    ctx = {"frames": frames, "summary": summary, "mask": mask}
    cert = {f.entry_label: prune(init_state())}
    work = [f.entry_label]
    clobbered = 0
    rsp_bad = False
    steps = 0

    def flow(lab, st):
        st = prune(st)
        if lab not in cert:
            cert[lab] = st
            work.append(lab)
        else:
            j = join(cert[lab], st)
            if j != cert[lab]:
                cert[lab] = j
                if lab not in work:
                    work.append(lab)

    while work:
        lab = work.pop()
        st = dict(cert[lab])
        i = pos[lab] + 1
        steps += 1
        if steps > 200000:
            f.problems.append("fixpoint does not converge")
            break
        while i < len(recs):
            r = recs[i]
            if r.kind == "label":
                flow(r.a, st)
                break
            if r.kind in ("jmp", "jcc"):
                flow(r.a, st)
            if r.kind in ("ret", "tail", "tailind"):
                if st.get(RSP) != (RSP, 0):
                    rsp_bad = True
                for reg in range(16):
                    if reg != RSP and st.get(reg) != (reg, 0):
                        clobbered |= 1 << reg
                if r.kind == "tail":
                    clobbered |= summary(r.a) & ~(1 << RSP)
            if not transfer(r, st, ctx, strict=False):
                break
            i += 1
    return cert, frames, clobbered, rsp_bad


def check(f, cert, frames, summary, mask, recs=None):
    """python twin of the Lean checker; returns None or (record index, message)"""
    recs = f.recs if recs is None else recs
    ctx = {"frames": dict(frames), "summary": summary, "mask": mask}
    st = None
    if f.entry_label not in cert:
        return (0, "no certificate for the entry label")
    ini = init_state()
    for k, v in cert[f.entry_label].items():
        if ini.get(k) != v:
            return (0, "entry certificate is not implied by the entry state")
    for i, r in enumerate(recs):
        if r.kind == "label":
            c = cert.get(r.a)
            if c is None:
                # unreachable label (should not happen: labels are CFG targets)
                return (i, "label %d has no certificate" % r.a)
            if st is not None:
                for k, v in c.items():
                    if st.get(k) != v:
                        return (i, "fall-through into label %d: certificate wants %s = %s, have %s" % (r.a, fmt_key(k), fmt_val(v), fmt_val(st.get(k))))
            st = dict(c)
            continue
        if st is None:
            return (i, "record after a non-returning instruction without label")
        if r.kind in ("jmp", "jcc"):
            c = cert.get(r.a)
            if c is None:
                return (i, "jump to label %d without certificate" % r.a)
            for k, v in c.items():
                if st.get(k) != v:
                    return (i, "jump to label %d: certificate wants %s = %s, have %s" % (r.a, fmt_key(k), fmt_val(v), fmt_val(st.get(k))))
        try:
            falls = transfer(r, st, ctx, strict=True)
        except CheckFail as e:
            return (i, str(e))
        if not falls:
            st = None
    return None


def fmt_key(k):
    if isinstance(k, tuple):
        return "[%s]" % fmt_val((k[1], k[2]))
    return R64[k]


def analyse(L):
    """fixpoints for all functions; private-convention kernels get computed summaries"""
    nfun = len(L.funcs)
    masks = {f.gid: SYSV_CLOBBER for f in L.funcs}
    for n, g in L.ext.items():
        masks[g] = SYSV_CLOBBER

    def summary(gid):
        return masks[gid]

    for it in range(6):
        changed = False
        for f in L.funcs:
            if f.cls == "summary":
                mask = 0xFFFF & ~(1 << RSP)      # compute: allow anything, then read off what was clobbered
            else:
                mask = SYSV_CLOBBER
            cert, frames, clob, rsp_bad = fixpoint(f, summary, mask)
            f.cert, f.frames, f.clobbered, f.rsp_bad = cert, frames, clob, rsp_bad
            abi_ok = not rsp_bad and not (clob & ~SYSV_CLOBBER)
            eligible = not f.exported and not f.addr_taken and not f.called_from_c and f.called_from_asm
            if not abi_ok and eligible and not rsp_bad:
                if f.cls != "summary" or masks[f.gid] != clob:
                    f.cls = "summary"
                    masks[f.gid] = clob
                    changed = True
            f.mask = masks[f.gid]
        if not changed:
            break
    L.masks = masks
    # final verification with the python twin of the Lean checker
    for f in L.funcs:
        f.fail = None
        if f.problems:
            f.fail = (0, "; ".join(f.problems))
            continue
        f.out = collapse(f, summary)
        res = check(f, f.cert, f.frames, summary, f.mask, recs=f.out)
        if res is not None:
            i, msg = res
            r = f.out[i]
            f.fail = (i, "%s @%s `%s`: %s" % (f.name, "%x" % r.addr if r.addr is not None else "?", r.text, msg))
    return L


# ------------------------------------------------------------------------------------------------
# run collapsing: what the Lean side sees

def collapse(f, summary):
    """Records after (i) weakening moves/loads/stores that do not touch tracked state into `plain`
    and (ii) merging maximal runs of `plain` records.  Uses the fixpoint states only to decide what
    may be weakened; every weakening is an over-approximation (plain = "writes any value to w"),
    so the Lean checker can only become more demanding, never less."""
    out = []
    ctx = {"frames": dict(f.frames), "summary": summary, "mask": f.mask}
    st = None
    run_start = None      # state at the start of the current plain run (for the sb side condition)

    def emit_plain(r, w, sb, st_before):
        nonlocal run_start
        if out and out[-1].kind == "plain" and run_start is not None \
                and not any(sb >> b & 1 and stack_derived(run_start.get(b)) for b in range(16)):
            out[-1].w |= w
            out[-1].sb |= sb
            out[-1].n += 1
        else:
            out.append(Rec("plain", w=w, sb=sb, addr=r.addr, text=r.text))
            run_start = dict(st_before)

    for r in f.recs:
        if r.kind == "label":
            st = dict(f.cert.get(r.a, {}))
            out.append(r)
            continue
        if st is None:
            out.append(r)
            continue
        before = st
        st = dict(st)
        k = r.kind
        weak = None
        if k == "plain":
            weak = (r.w, r.sb)
        elif k == "movrr" and r.a != RSP and not keep_value(before.get(r.b)):
            weak = (1 << r.a, 0)
        elif k == "lea" and r.a != RSP and not stack_derived(before.get(r.b)):
            weak = (1 << r.a, 0)
        elif k == "load" and r.a != RSP:
            v = before.get(r.b)
            val = before.get(("s", v[0], v[1] + r.c)) if stack_derived(v) else None
            if not keep_value(val):
                weak = (1 << r.a, 0)
        elif k in ("store", "storek", "storeidx") and not stack_derived(before.get(r.a)):
            weak = (r.w, 1 << r.a)
        elif k == "store" and not keep_value(before.get(r.c)):
            # value is not worth tracking: a kill of the 8 bytes is enough
            r = Rec("storek", w=r.w, a=r.a, b=r.b, c=8, addr=r.addr, text=r.text)
        try:
            falls = transfer(r, st, ctx, strict=False)
        except CheckFail:
            falls = True
        st = prune(st)
        if weak is not None:
            emit_plain(r, weak[0], weak[1], before)
        elif k in ("store", "storek", "storeidx", "storestatic") and r.w:
            # memory write + register write (xchg/cmpxchg/rep stos): two records
            out.append(Rec(r.kind, a=r.a, b=r.b, c=r.c, addr=r.addr, text=r.text))
            out.append(Rec("plain", w=r.w, addr=r.addr, text=r.text))
            run_start = None
        else:
            out.append(r)
        if not falls:
            st = None
    return out
