#!/usr/bin/env python3
"""Regenerates /verif/MANIFEST.json from the table below (kept valid against MANIFEST.schema.json)."""
import json, os, subprocess
V = os.path.dirname(os.path.dirname(os.path.abspath(__file__)))

CLAIMED = {
    "C01": dict(
        text="Proof (Lean 4) over the hand-written executable model of the context layer + lane scheduler "
             "(Impl/HashMB.lean): streaming law, hash_pad arithmetic, settle-neutrality of the resubmit loop for any "
             "lane occupancy/interleaving, lane bookkeeping invariant; the synchronous base family (own update and padding "
             "code) is proved separately (C01_base: baseUpdate = absorb, its padding = hash_pad's blocks). Tie: per-call correspondence of all 28 "
             "(algorithm,family) managers with the compiled model on seeded histories, plus OpenSSL digest monitor. "
             "T-route for hash_pad: the C function of all 23 SIMD-family context files is regenerated from the source (clang AST -> "
             "Gen/HashPad.lean) on every run and proved equal to the model's padding for every total and every buffer content "
             "(GenProps/HashPad.lean: all_canon, hashpad_current), plus in-process correspondence of the real function; "
             "T-route for the loop body of *_ctx_mgr_resubmit and the top-up block of submit (Gen/Resubmit.lean, Gen/TopUp.lean): "
             "proved to take, in every context state, the decision of one unfolding of HashMB.resubmit / the first half of "
             "HashMB.submitTail (canon_iter, iter_refines, resubmit_eq_iterModel, canon_topup, topup_refines). "
             "SIMD kernels are modelled (compress^n), not verified.",
        note="Trusted: Lean kernel; axioms propext/Classical.choice/Quot.sound; the correspondence harness "
             "(differential, bounded by its generators); Spec/*.lean transcriptions (tested on vectors); OpenSSL as "
             "independent oracle. The model's loop bounds are proved never to be reached (C06_total).",
        technique="Lean 4 proof over hand-written model + differential correspondence per family; Lean 4 proof over the translated hash_pad source",
        engine="HashMB", ref="4.1, 5 C01, 10.9"),
}

CLAIMED["C06"] = dict(
    text="Proof (Lean 4) over the executable HashMB model, for every history of valid or rejected calls and every "
         "lane count / single-buffer threshold: per-call conservation of in-flight contexts (nothing lost, invented or "
         "handed back twice; handed-back contexts are out of every lane and not PROCESSING), in flight <=> in a lane, "
         "occupied lanes <= lanes and duplicate-free, flush returns none iff nothing in flight, every call returns "
         "(loops terminate), k flushes drain a manager holding k contexts, complete iff LAST, idle "
         "contexts accept UPDATE/LAST. Tie: correspondence of all 28 family managers + public API with the model, and "
         "model-independent monitors in the harness (exactly-once accounting, status bits, user_data, caller buffers, drain). "
         "T-route: the loop body of *_ctx_mgr_resubmit and the top-up block of submit of the 23 SIMD-family context files are "
         "regenerated from the source on every run and proved to take the model's decision in every context state "
         "(which context is handed back with which status, which job is submitted: GenProps/Resubmit.lean, GenProps/TopUp.lean); "
         "likewise the loop body of every *_ctx_mgr_flush_<family> (GenProps/Flush.lean: NULL exactly when the manager's flush "
         "hands back nothing, otherwise resubmit and return or loop = one unfolding of HashMB.ctxFlush), with the manager callee "
         "checked to be the one of the file's own algorithm and family.",
    note="Trusted: Lean kernel + standard axioms; harness (differential). Termination of the resubmit/flush loops and the "
         "finite drain (k contexts held => exactly k flushes hand them back, once each) are theorems (C06_total, C06_drain). "
         "user_data / caller buffers are not model state: covered by harness monitors only.",
    technique="Lean 4 invariant proof over hand-written model + Lean 4 proof over the translated resubmit loop / top-up block + differential correspondence + runtime monitors",
    engine="HashMB", ref="4.1, 5 C06, 10.9")
CLAIMED["C11"] = dict(
    text="Proof (Lean 4): a rejected submit returns the context with the matching code and changes nothing but its "
         "error field (lanes, free stack, other contexts, abstract streams identical); histories with rejected calls "
         "injected anywhere keep the invariant under which C01/C06 hold; wrapper return code: 0 for every accepted "
         "submit (no poisoning), documented code for rejected ones; the pre-fix wrapper is refuted by a kernel-checked "
         "witness (defect D3, fixed in /repo 6fe72f6). Tie: correspondence with 30% rejected submits on all families, "
         "byte-compare of manager and all contexts around every rejected call, public-API return-code monitor. T-route: the "
         "bookkeeping prefix of every SIMD-family _ctx_mgr_submit_ (23 files) is regenerated from the source (clang AST -> "
         "Gen/SubmitPrefix.lean) on every run and proved, for every flags word, length and context state, to take the model's "
         "rejection, store the error code and nothing else, and to clear the error on acceptance (canon_run, prefix_refines, "
         "all_canon, submit_prefix_current); a failing obligation is searched for a witness (findWitness) that "
         "harness/drv_submit.c replays on the real function.",
    note="Trusted: Lean kernel + standard axioms; harness; clang's parse + tools/gen_submit.py. The wrapper's return-code mapping is hand-modelled "
         "(Props/C11.lean isalCode) and tied by the public-API monitor on the dispatched family only. The base family's submit "
         "(different shape) stays on the hand-written model + correspondence.",
    technique="Lean 4 proof over hand-written model + Lean 4 proof over the translated submit prefix + differential correspondence + byte-compare monitor",
    engine="HashMB", ref="5 C11, 10.9")

CLAIMED["C15"] = dict(
    text="Proof (Lean 4): theorem C01/C15 hold for every stream below 2^61 bytes with no other size hypothesis, so "
         "totals crossing 2^29, 2^32, 2^32+2^29 at any residue are inside the quantifier; running total = sum of "
         "segment lengths; 64-bit bit-length field; packed lane words (blocks<<shift|lane) fit below the idle marker "
         "and order lexicographically. Tie: every one of the 28 family managers really hashes streams crossing the "
         "totals (segments up to 2^32-1 bytes on an aliased 4 GiB window); all intermediate digests/totals compared "
         "with the Lean model, final digest with OpenSSL. T-route: hash_pad (where the length field is computed) and the "
         "total_length bookkeeping of submit (reset on FIRST, += len modulo 2^64, C integer promotions as clang resolves them) "
         "of all 23 SIMD-family context files are regenerated from the source on every run and proved for ALL totals < 2^64 "
         "(GenProps/HashPad.lean, GenProps/SubmitPrefix.lean).",
    note="Trusted: Lean kernel + standard axioms; clang's parse + tools/gen_hashpad.py, gen_submit.py; the model side evaluates big segments as absorb/target of the "
         "stream (RHS of theorem C01) in 4 KiB pieces, not through the lane scheduler; machine widths of lens[] are "
         "outside the model (Nat) and are covered by the big runs + pack lemmas. quick = 2^29 crossing only.",
    technique="Lean 4 proof over hand-written model + Lean 4 proof over translated hash_pad / submit prefix + big-stream differential correspondence",
    engine="HashMB", ref="5 C15, 10.9")

_AES_NOTE = ("Trusted: Lean kernel + standard axioms; Spec/{Aes,Gf128,Gcm,Xts,Cbc}.lean transcriptions (tested on "
             "FIPS-197 / SP 800-38D / IEEE 1619 / SP 800-38A vectors); the equality 'assembly = specification' is "
             "established per call by the differential harness (bounded by its generators) with OpenSSL as second "
             "oracle, not by proof - the SIMD kernels are out of reach of a Lean model here.")
CLAIMED["C02"] = dict(
    text="Proof (Lean 4) of the laws of the SP 800-38D transcription the statement names: dec(enc) = plaintext for all "
         "lengths/AAD/keys/12-byte IVs, same tag, 8/12-byte tags are prefixes of the 16-byte tag, exact output lengths. "
         "Tie: per-call correspondence of the one-shot entry points of all four families, their _nt variants and the "
         "public API with the Lean specification (in place / disjoint, random alignments, length classes, AAD sizes, "
         "one AAD >= 2^29 bytes per run) and with OpenSSL. Found and fixed F17 (32-bit AAD bit length, ab52d70).",
    note=_AES_NOTE, technique="Lean 4 proof of the specification laws + differential correspondence per family",
    engine="AES", ref="5 C02")
CLAIMED["C03"] = dict(
    text="Proof (Lean 4): XTS decrypt(encrypt) = plaintext for every length >= 16 incl. ciphertext stealing; "
         "expanded-key forms = raw-key forms (encrypt with both encryption schedules; decrypt with the FIPS-197 "
         "equivalent-inverse-cipher schedule); length preserved. Tie: per-call correspondence of all 24 family "
         "symbols + public API with Spec/Xts.lean and OpenSSL; lengths < 16 leave buffers untouched (monitor).",
    note=_AES_NOTE, technique="Lean 4 proof of the specification laws + differential correspondence per family",
    engine="AES", ref="5 C03")
CLAIMED["C04"] = dict(
    text="Proof (Lean 4): key schedule shape for 128/192/256; equivalent inverse cipher with the decryption schedule = "
         "inverse cipher; AES inverse; CBC dec(enc) = id for all N; CBC decryption by groups of any size g with the "
         "previous ciphertext block carried across groups = CBC decryption (the chaining-across-iterations argument). "
         "Tie: keyexp {sse,avx}, cbc enc {x4,x8}, cbc dec {sse,avx,vaes_avx512}, public API vs Spec and OpenSSL.",
    note=_AES_NOTE, technique="Lean 4 proof of the specification laws + differential correspondence per family",
    engine="AES", ref="5 C04")

CLAIMED["C12"] = dict(
    text="Proof (Lean 4) over the resolver programs REGENERATED from the disassembly on every run: exact symbolic "
         "execution of the 64 <entry>_dispatch_init routines (paths_complete: every one of the 2^160 CPUID/XCR0 "
         "assignments follows one enumerated path), verified path checker (checkResolver_sound): under every "
         "architecturally consistent configuration the selected symbol's reachable ISA classes (from the disassembly, "
         "through internal calls) are available; entry points of one shared object have the same resolver skeleton "
         "(renaming equivariance => same family for every configuration); binding stable. Per run the kernel "
         "re-evaluates the two obligations by decide +kernel. Translator validated by running the real resolvers "
         "under the ISAL_CRYPTO_VERIF virtual-CPUID hook. Found and fixed F10, F11.",
    note="Trusted: Lean kernel + standard axioms; tools/gen_dispatch.py + disasm.py (objdump front end, ISA class "
         "table: unknown mnemonics fail the check); reqBits/archRules from the Intel SDM; explicit conventions the "
         "library itself assumes (AES-NI+PCLMULQDQ with SSE4.1 for the AES entry points per their @requires, BMI1/2 "
         "with AVX2 'level 04', VAES=>AES-NI, VPCLMULQDQ=>PCLMULQDQ) are hypotheses of the theorem.",
    technique="Lean 4 reflective proof over a model regenerated from the disassembly + translator validation under a CPUID hook",
    engine="Dispatch", ref="4.3, 5 C12")

CLAIMED["C09"] = dict(
    text="Proof (Lean 4) over the hand-written executable model of rolling_hash2.c (init/reset/run glue + base scan): "
         "state hash = H(last w bytes) after any sequence of runs (1<=w<=48); a run returns HIT at the least position "
         ">=1 where (H(window)&mask)=trigger, else MAX with offset=max_len, offset<=max_len; boundaries of a stream are "
         "identical for any two cuttings into run calls (incl. max_len 0 and <w); mask_gen formula. T-route: the "
         "256-entry table is re-extracted from rolling_hash2_table.h on every run and the kernel checks it equals the "
         "pinned table; the 64-bit arithmetic of the step (both scan loops of _rolling_hash2_run_until_base with their exit "
         "tests, hash_fn, the reset loop) is re-translated from rolling_hash2.c by gen_rollstep.py and has to equal the "
         "programs proved to be the model's step (hashFn_eq, untilLoop_unfold, resetLoop_unfold; loop frames are "
         "shape-compared). Tie: correspondence of run with each scan forced (base, _00, _04 via --wrap) and the public "
         "API, every run also executed with the base scan on a copy. Found and fixed F5, F4.",
    note="Trusted: Lean kernel + standard axioms; tools/gen_rolling_table.py; harness. The assembly scans are specified "
         "by the base scan and checked differentially only. One run per check uses max_len >= 2^31 "
         "on an aliased 3 GiB window (monitors only; the model cannot expand it).",
    technique="Lean 4 proof over hand-written model + regenerated constant table and step arithmetic (per-run decide obligations) + differential correspondence",
    engine="Rolling", ref="5 C09, 10.9")

CLAIMED["C07"] = dict(
    text="Proof (Lean 4): theorem C07 - for every key schedule, 12-byte IV, AAD, every list of update pieces (any lengths "
         "incl. 0 and partial blocks), enc and dec, tag length t: init; update*; finalize of the context state machine "
         "model (Impl/GcmStream.lean, the seven isal_gcm_context_data fields, PARTIAL_BLOCK / whole blocks / new tail) "
         "equals the one-shot SP 800-38D result on the concatenation; also for the vaes_avx512 protocol variant that "
         "defers the last GHASH multiply of an exactly-256-byte update (C07_lazy). No length hypothesis needed. Tie: "
         "after init and after EVERY update all context fields + output bytes of all four families, their _nt variants "
         "(64-byte rule) and the public API are compared with the model; final tag; OpenSSL one-shot monitor.",
    note=_AES_NOTE + " The CTR/GHASH kernels inside an update are modelled by the standard.",
    technique="Lean 4 refinement proof over hand-written state-machine model + per-call context correspondence",
    engine="AES", ref="5 C07")
_MH_NOTE = ("Trusted: Lean kernel + standard axioms; the SIMD block functions are modelled as 16 independent compress chains "
            "(tied by correspondence for all five families + public API); Spec/MultiHash.lean is the definition as read "
            "from the property statement and pinned by known-answer tests.")
CLAIMED["C05"] = dict(
    text="Proof (Lean 4): for every partition of a stream < 2^32 bytes into update calls (empty ones included), "
         "finalize(fold update init) = the multi-hash definition, for mh_sha1 and mh_sha256; the model follows "
         "mh_sha1_update_base.c / _finalize_base.c statement by statement with the uint32/uint64 widths explicit. "
         "Tie: context (total, partial length, 16 interim digests) after every update and final digest for "
         "base/sse/avx/avx2/avx512/public API. Found and fixed F18 (mh_sha256 wrong in the Makefile.unx build). T-route: all "
         "10 instances of the update template (_mh_sha{1,256}_update_{base,sse,avx,avx2,avx512}) are regenerated from the "
         "source (clang AST -> Gen/MhUpdate.lean) on every run and proved to advance total_length, call their own family's "
         "block function on exactly the completed carried block and the whole blocks of the input, and stash exactly the "
         "tail, for every context state and input (canon_mh_update, GenProps/MhUpdate.lean); the identification of that "
         "specification (mhSpec) with the hand-written MhStream.update is by correspondence, not by proof. The 10 tail "
         "functions (canon_tail, tailBlocks_is_standard: the blocks hashed are the partial block plus the standard padding) "
         "and the 10 finalize functions (canon_fin: own family's tail with the 32-bit total, exactly W words copied out) "
         "are translated and proved the same way.",
    note=_MH_NOTE, technique="Lean 4 proof over hand-written model + Lean 4 proof over the translated update template + differential correspondence per family",
    engine="MultiHash", ref="5 C05, 10.9")
CLAIMED["C10"] = dict(
    text="Proof (Lean 4): for every seed, every partition of a stream < 2^32 bytes: the stitched finalize returns "
         "(mh_sha1 of the stream, MurmurHash3_x64_128 of the stream with both state words = seed); model follows "
         "mh_sha1_murmur3_x64_128_{update,finalize}_base.c and murmur3_x64_128_internal.c incl. the order of operations "
         "in finalize. Tie: correspondence incl. the running murmur state after every update, all families + public API; "
         "plus T-route: the 5 stitched update instances and the 5 stitched finalize instances are translated from the "
         "current source on every run (gen_mhupdate.py, gen_mhfin.py) and have to equal the programs whose meaning is "
         "proved (canon_mh_update / mhupdate_absorbs; canon_fin, mur_reads_buffered: murmur3 is fed exactly the buffered "
         "bytes before the mh tail overwrites them, with the 32-bit total length); the 64-bit arithmetic of "
         "_murmur3_x64_128_block / _tail (helpers inlined by gen_murmur.py) is proved to be the MurmurHash3_x64_128 body step "
         "of Spec/Murmur3.lean and the tail arithmetic of the model (canon_block_step, canon_tail_arith, murmurTail_eq); the "
         "loop frame / byte gathering around it is shape-compared, not proved. The stitched C block function (same 1024n "
         "bytes to mh_sha1 and murmur3, canon_blockbase) and the init function (for every seed both murmur words = seed, "
         "canon_stitched) are translated and proved the same way.",
    note=_MH_NOTE, technique="Lean 4 proof over hand-written model + differential correspondence per family; Lean 4 proof over "
                              "source-translated update/tail/finalize programs (per-run decide obligations)",
    engine="MultiHash", ref="5 C10")

CLAIMED["C08"] = dict(
    text="Partial by nature. Proved (Lean 4): the index arithmetic of the C glue and of the models - partial-block "
         "buffer holds < one block between calls (from the reachable-state invariant), hash_pad hands out one or two "
         "blocks of exactly BLOCK_SIZE bytes from the 2*BLOCK_SIZE buffer (64- and 128-byte algorithms), lane jobs are "
         "whole blocks of the caller segment, GCM/XTS output exactly len bytes and tag_len tag bytes, rolling run "
         "offset <= max_len (C09_run). Decided by enumeration, not proof: accesses of the assembly kernels - every "
         "data/key/IV/tweak/tag/AAD buffer of every hash and AES family entry point placed flush against a PROT_NONE "
         "page (end-flush and start-flush), canaries on the other side, incl. CBC len=0; the multi-hash update buffers and "
         "the rolling-hash run buffers likewise. T-route: hash_pad of the 23 SIMD-family context files never stores outside "
         "padblock[0, 2B) (GenProps/HashPad.lean: the translated program has no out-of-range store for any total). "
         "Found and fixed F12; F5 (C09) was also an over-read.",
    note="Trusted: Lean kernel + standard axioms; harness/guard.h. A wide vector load inside a kernel is invisible to "
         "the models: only the guard pages see it, for the length/alignment classes generated (not exhaustive in quick). "
         "Manager/context/key-data objects keep their alignment contracts and are covered by canaries only.",
    technique="Lean 4 proof of model index bounds + guard-page differential enumeration for the assembly",
    engine="HashMB/AES", ref="5 C08")
CLAIMED["C20"] = dict(
    text="Proof (Lean 4), noninterference on the models that carry API-undefined state as explicit parameters: hash - "
         "two executions of any history from managers whose contexts held different garbage agree on every API-defined "
         "field (C20_hash, via C01/C15), FIRST defines digest/total/partial before any read; GCM - result and every "
         "API-defined context field after any update sequence are independent of what GCM_INIT left in "
         "partial_block_enc_key (C20_gcm, C20_gcm_context, C20_gcm_update), for both protocol variants. Tie: every hash "
         "manager and AES family entry point executed twice on the same op stream with differently poisoned object "
         "memory and, through harness/tramp.asm, differently poisoned caller-saved GPRs, zmm0-31, k1-k7, flags and "
         "64 KiB of dead stack: result streams identical to each other and to the model. The multi-hash and rolling-hash "
         "drivers run as paired executions too (different junk in the context / state object before init). T-route: "
         "hashpad_current_junk - hash_pad of the current source does not depend on the stale content of the pad buffer.",
    note="Trusted: Lean kernel + standard axioms; harness/tramp.asm. 32-bit arguments are passed zero-extended (several "
         "asm routines use them as 64-bit quantities) - recorded assumption. mh/rolling drivers: memory poisoning only. "
         "The static 'no read of an undefined register' rule of DESIGN.md is not built.",
    technique="Lean 4 noninterference proof over hand-written models + paired poisoned executions",
    engine="HashMB/AES", ref="5 C20")

CLAIMED["C17"] = dict(
    text="Proof (Lean 4), for every number of threads and every interleaving: the abstract status-word protocol "
         "(Impl/SelfTest.lean) runs the self tests at most once, no call returns before a verdict is published, "
         "success is returned only if they passed, all calls agree, the verdict is stable, and under a fair "
         "scheduler every call returns (C17_once, _no_early_return, _agree, _verdict_stable, _live, _final). "
         "T-route tie: tools/gen_selftest.py regenerates, from the disassembly of the FIPS build, the three programs "
         "asm_check_self_tests_status / asm_set_self_tests_status / isal_self_tests in a 21-form mini-ISA; the "
         "kernel-checked simulation checker (simCheck, proved sound: Lemmas/SelfTestSim.lean) shows they implement the "
         "abstract protocol instruction by instruction (sim_ok, decide +kernel), so safety and liveness transfer to "
         "the machine level (C17_machine, C17_machine_live, C17_generated). Obligation (c): every value the two "
         "self-test functions can return is 0 or 1 (extracted from the C sources; D2 violated it - fixed da1f043). "
         "Closed world: only self_tests.o imports the status functions; the status word is a local symbol. "
         "Correspondence: harness/drv_fips.c, 1-64 threads released by a barrier into first calls of the FIPS build "
         "with the self tests passing / AES failing / SHA failing, then later calls. The portable gate "
         "fips/self_tests_generic.c (C11 atomics, different protocol shape) has its own abstract model and the same "
         "set of theorems (Props/C17Generic.lean), tied by the same simulation check over gcc's code of the "
         "FIPS_MODE=y arch=noarch build (tools/gen_selftest_generic.py, GenProps/SelfTestGeneric.lean: sim_ok, "
         "closed_world_ok incl. 'only seq_cst orders / status declared atomic', fast_path_ok) and the same stress harness.",
    note="Trusted: Lean kernel + standard axioms; objdump decoding and the translator; sequential consistency for the "
         "single status word (x86-TSO is coherent per location, lock cmpxchg is a full barrier); the self-test functions "
         "are opaque calls returning a value of the extracted set; fairness is an assumption of the liveness clauses; "
         "the portable gate is checked on gcc's x86-64 code of the same C source (other targets' compilers are outside). "
         "Which entry points call isal_self_tests first is C13's subject; its generated gate obligations (gate_ok, shape_fips_ok, "
         "opaque_fips_ok, approved_tests_first) are re-checked by this check against the same tree.",
    technique="Lean 4 protocol proof + verified simulation checker over translated disassembly + stress correspondence",
    engine="SelfTest", ref="5 C17")

CLAIMED["C13"] = dict(
    text="Proof (Lean 4) over the wrappers as translated from the source on every run (T-route: tools/gen_wrappers.py, "
         "clang JSON AST of the 13 wrapper files of the FIPS build -> 12-form statement language, Gen/WrappersFips.lean): "
         "verified checkers (wellGated, nonApproved, xtsSameKey; soundness in Impl/WrapperC13.lean) evaluated on the "
         "72-entry table by decide +kernel give, for every environment (every NULL subset, all scalars, all three "
         "self-test statuses and both verdicts, every key relation, every callee report): approved entry points return "
         "non-zero and do no call/store unless the gate passes, ERR_SELF_TEST with otherwise valid arguments, nothing "
         "but the key-compare loads when the status is FAILED, the self tests run before any work when NOT RUN; "
         "non-approved ones return ERR_FIPS_INVALID_ALGO with no effect; all 8 XTS forms refuse identical keys in the "
         "form they arrive in (raw / enc schedule / dec schedule layouts). Tie of the model to the binary: stub-mode "
         "harness (every internal callee interposed with ld --wrap) compares return code, accessed set, written set and "
         "call sequence of every call with `run`; real-mode FIPS harness forces the status word and compares memory.",
    note="Trusted: Lean kernel + standard axioms; clang AST + translator normalisations (anything unfit becomes `opaque` "
         "and fails); Spec/ApiDomain.lean classification of the 72 entries; selfTestGate abstracts isal_self_tests() "
         "(C17); internal callees abstract. D1 and F6 found by this check and fixed.",
    technique="Lean 4 verified checker over translated wrappers (decide +kernel) + enumeration correspondence",
    engine="Wrapper", ref="5 C13")
CLAIMED["C16"] = dict(
    text="Proof (Lean 4) over the translated wrappers of the default (SAFE_PARAM) build: verified checkers "
         "(guardsBeforeUse, domainChecks, reportsCtxErrors, sameCallAs; soundness in Impl/WrapperC16.lean) give for every "
         "environment: outside the documented domain (Spec/ApiDomain.lean) the entry point returns one of the documented "
         "codes with no effect at all; inside it returns 0 if the callee reports none; every pointer is NULL-tested before "
         "any use; context errors are mapped to their codes; each of the 69 legacy functions makes the same single call "
         "with the same arguments as its isal_ counterpart (pairing from the deprecation notices). Tie: stub-mode "
         "harness over every NULL subset (other pointers aimed at PROT_NONE pages) x boundary scalars on both builds, "
         "real-mode harness: legacy/isal_ pairs byte-identical on random valid inputs, in-domain calls return 0.",
    note="Trusted: Lean kernel + standard axioms; clang AST + translator; hand-written ApiDomain (cross-checked by "
         "shapeMismatch and the harness). flags > 3 of the hash managers is refused through ctx->error (by design; "
         "modelled as calleeReported; the callee's validation prefix is covered by the submit-prefix T-route, "
         "GenProps/SubmitPrefix.lean, re-checked here). F7, F15, F19 found by this check and fixed.",
    technique="Lean 4 verified checker over translated wrappers (decide +kernel) + enumeration correspondence",
    engine="Wrapper", ref="5 C16")

CLAIMED["C19"] = dict(
    text="Proof (Lean 4): a certificate checker for abstract x86-64 instruction records (Impl/X86Abs.lean: GPR values as "
         "entry-value/stack-offset/unknown, stack pointer, save slots, `and rsp,-64` frames, calls through clobber "
         "summaries) is proved sound against a nondeterministic small-step semantics (checkFn_sound, 1270 lines): if "
         "checkFn accepts a function then on every path from its entry with any registers and memory no forbidden "
         "record (std, ldmxcsr, fldcw, fninit, fxrstor, xrstor, emms, popf, x87/MMX ...) or unsupported record is "
         "reached, every push/call/tracked store lands strictly below the entry stack pointer, and at every exit "
         "(ret, tail jump, dispatch stub) rsp and every register outside the clobber summary hold their entry values. "
         "T-route: tools/gen_x86abs.py regenerates records + certificates for all 799 functions of all 230 objects of "
         "the library built from the current tree (quick: default build; thorough: also FIPS) and the kernel "
         "re-evaluates checkObj per object (decide +kernel); Props/C19.lean lifts this to: every function that is not "
         "one of the 16 private-convention kernels restores rsp, rbx, rbp, r12-r15 (theorem c19). Dynamic tie: "
         "harness/drv_abi.c calls 390 entry points through a trampoline comparing the callee-saved registers, DF, "
         "MXCSR, the x87 control word and a canary above the frame; tools/insnform.py validates the instruction "
         "table's register write-sets by executing every instruction form in use in isolation.",
    note="Trusted: Lean kernel + standard axioms; objdump decoding, translator and instruction table (x86tab.py; unknown "
         "=> unsupported => rejected); A-frame assumption (stores through non-stack-derived addresses do not hit save "
         "slots; 28 functions index local arrays as [rsp+reg+k]); libc externals obey SysV; no wrap of stack arithmetic; "
         "choice of the private-convention class by the translator. DF/MXCSR/x87 CW: proved never written (no writer "
         "reachable), DF clear on entry is the ABI's assumption.",
    technique="Lean 4 verified certificate checker over translated disassembly (decide +kernel per object) + trampoline correspondence",
    engine="X86Abs", ref="4.2, 5 C19")
CLAIMED["C18"] = dict(
    text="Proof (Lean 4) of the two static clauses, correspondence for the dynamic one. (1) No writable static storage "
         "but bindings and verdict: over the X86Abs model of all 230 objects every instruction with a static (rip-"
         "relative) destination is `<e>_dispatch_init` storing to `<e>_dispatched` or one of the two owners of "
         "self_test_status (c18_static_stores; statics_ok/written_ok/counts by decide +kernel on the regenerated "
         "tables: 66 stores, 65 written symbols of 1076 in writable sections). (2) Racing first calls: for every "
         "regenerated resolver (pure function of the CPU configuration, stub shape call;jmp[cell] re-checked) and any "
         "number of threads under any interleaving the cell only ever holds the init stub or the one target, every "
         "thread runs that target, nobody blocks, each thread needs at most 4 own steps (Impl/BindRace.lean, "
         "c18_bind_race, c18_bind_progress). (3) Non-interference on distinct objects: harness/drv_threads.c - every "
         "round a fresh process in which 2..64 threads make their first use of the library simultaneously, each "
         "running a workload over all public families on its own objects; every thread's result digest equals its "
         "solo run; all 209 writable input sections of library objects (from the link map) are snapshotted before/"
         "after and may differ only inside dispatch cells; every cell is bound to the same target in all runs.",
    note="Trusted: Lean kernel + standard axioms; translators; atomicity of the 8-byte cell access (cells are 4-byte "
         "aligned by their section - candidate weakness, not demonstrable: stub and targets share the high dword; the "
         "harness checks that no cell of its link straddles a cache line). Writes through pointers to static data are "
         "outside clause (1) (21 writable-section symbols have their address taken, all constant tables) and are "
         "covered by the snapshots only. Clause (3) is correspondence, not proof: the models are pure functions of "
         "the objects passed, so non-interference is by construction there.",
    technique="Lean 4 verified checker over translated disassembly + protocol proof (racing binds) + threaded correspondence",
    engine="X86Abs", ref="4.2, 5 C18")

CLAIMED["C14"] = dict(
    text="Proof (Lean 4): engine Scrub, a certificate checker in the style of X86Abs over a taint-instrumented small-step "
         "semantics (ghost taint per vector-register part [bits 0-127 / 128-511], per GPR/flags/opmask and per stack byte; "
         "sources = loads through the key-material arguments of the entry point's signature; AES/PCLMUL/xor... propagate), "
         "proved sound once (checkScrub_sound, 1340 lines): if checkScrub accepts a function then on every path from its "
         "entry, at every exit (ret, tail jump, dispatch stub) every vector-register part is the caller's value or zero "
         "(rule Z) / carries no taint (rule T), and no stack byte below the caller's frame is tainted. T-route: "
         "tools/gen_scrub.py regenerates records + certificates for all 354 functions of the 68 AES objects of the "
         "current build (461k instructions) and the kernel re-evaluates checkSObj per object (decide +kernel); "
         "Props/C14.lean lifts this to c14 / c14_Z / c14_no_declass / c14_tail. 348 functions pass (274 under the "
         "strictest rule Z; GCM bulk functions under rules that declassify aesenclast / pclmulqdq results = ciphertext "
         "and GHASH of ciphertext, fixed per entry point by a signature table); every function must pass under the "
         "rule recorded for the unchanged tree (tools/scrub_expected.json) or a stricter one. Correspondence and "
         "witnesses: harness capture of zmm0-31, k0-7 and 64 KiB of dead stack right after every AES call, scanned for "
         "raw key, both schedules, GHASH key powers and the encrypted tweak; tools/vecform.py validates the vector "
         "write-sets / zeroing idioms of the instruction table by isolated execution.",
    note="Trusted: Lean kernel + standard axioms; objdump, the two instruction tables (validated dynamically), the "
         "signature table (what is key material, where declassification is meaningful), the frame assumption of "
         "X86Abs. NOT covered by the proof: 6 functions (_aes_gcm_pre_{128,256}, legacy aliases, isal_ wrappers) - a "
         "local schedule array passed to the key expansion and cleared by a volatile byte loop is beyond a "
         "constant-offset certificate domain; they are covered by the dynamic capture only (this is where F9 was found). "
         "GPRs are outside the property (sse/avx XTS leave E(k2,tweak)-derived bits in rax: reported, not a violation). "
         "F8, F9, F13, F14 found by the dynamic capture and fixed; the static check accepts the repaired tree.",
    technique="Lean 4 verified taint/scrub certificate checker over translated disassembly (decide +kernel per object) + capture correspondence",
    engine="Scrub", ref="4.2, 5 C14, 10.6")

REASON_TODO = "(none)"

props = [json.loads(l) for l in open(os.path.join(V, "properties.jsonl"))]
checks, na = [], []
for p in props:
    pid = p["id"]
    if pid in CLAIMED:
        c = CLAIMED[pid]
        checks.append({
            "property_id": pid,
            "quick_cmd": "python3 tools/check.py %s --tier quick" % pid,
            "thorough_cmd": "python3 tools/check.py %s --tier thorough" % pid,
            "evidence_file": "/verif/evidence/%s.json" % pid,
            "replay_cmd_template": "python3 tools/check.py %s --replay {path}" % pid,
            "engine": c["engine"],
            "level_claimed": {"category": "proof", "text": c["text"], "design_ref": c["ref"]},
            "level_note": c["note"],
            "technique": c["technique"],
        })
    else:
        na.append({"property_id": pid, "reason": REASON_TODO})

hooks_commits = []
try:
    out = subprocess.run(["git", "-C", "/repo", "log", "--format=%H %s"], capture_output=True, text=True).stdout
    hooks_commits = [l.split()[0] for l in out.split("\n") if "ISAL_CRYPTO_VERIF" in l or l.split(" ", 1)[-1].startswith("hook:")]
except Exception:
    pass

m = {
    "version": 1,
    "setup_cmd": "cd /verif && python3 tools/gen_all.py && cd lean && lake build",
    "hooks": {
        "guard": "ISAL_CRYPTO_VERIF",
        "enable": "make -f Makefile.unx D=ISAL_CRYPTO_VERIF lib (tools/build_repo.py variant 'hook'); NASM sees -DISAL_CRYPTO_VERIF",
        "baseline_off_cmd": "make -C /repo check -j8",
        "source_commits": hooks_commits,
        "add_only": True,
    },
    "engines": [
        {"name": "MultiHash", "path": "lean/IsalVerif/Impl/MhStream.lean", "serves_properties": ["C05", "C10"],
         "kind_free_text": "model of mh_sha1/mh_sha256/stitched murmur streaming glue; Spec/MultiHash.lean, Spec/Murmur3.lean; harness/drv_mh.c"},
        {"name": "Rolling", "path": "lean/IsalVerif/Impl/RollingRun.lean", "serves_properties": ["C09"],
         "kind_free_text": "model of rolling_hash2.c + Spec/Rolling.lean; gen_rolling_table.py; harness/drv_rolling.c"},
        {"name": "Dispatch", "path": "lean/IsalVerif/Impl/Dispatch.lean", "serves_properties": ["C12"],
         "kind_free_text": "mini-x86 interpreter + exact symbolic execution + verified path checker; tools/gen_dispatch.py translator; harness/drv_dispatch.c under the hook"},
        {"name": "AES", "path": "lean/IsalVerif/Spec/Aes.lean", "serves_properties": ["C02", "C03", "C04", "C07"],
         "kind_free_text": "executable standards (FIPS-197, SP 800-38D, IEEE 1619, SP 800-38A) + GcmStream context model; harness/drv_aes.c"},
        {"name": "Scrub", "path": "lean/IsalVerif/Impl/Scrub.lean", "serves_properties": ["C14"],
         "kind_free_text": "taint-instrumented semantics + scrub certificate checker proved sound (Lemmas/ScrubSound.lean); tools/gen_scrub.py translator over the AES objects; tools/vecform.py table validation; capture mode of harness/tramp.asm + sens.h"},
        {"name": "X86Abs", "path": "lean/IsalVerif/Impl/X86Abs.lean", "serves_properties": ["C19", "C18"],
         "kind_free_text": "abstract x86-64 records + certificate checker proved sound (Lemmas/X86AbsSound.lean); tools/gen_x86abs.py translator over every object; Impl/BindRace.lean (racing dispatch binds); harness/drv_abi.c, harness/drv_threads.c"},
        {"name": "Wrapper", "path": "lean/IsalVerif/Impl/Wrapper.lean", "serves_properties": ["C13", "C16"],
         "kind_free_text": "statement language + run semantics of the isal_ wrappers, verified checkers (Impl/WrapperC13.lean, WrapperC16.lean), documented domain Spec/ApiDomain.lean; tools/gen_wrappers.py translator (clang AST); harness/drv_api.c"},
        {"name": "SelfTest", "path": "lean/IsalVerif/Impl/SelfTest.lean", "serves_properties": ["C17"],
         "kind_free_text": "abstract n-thread status-word protocol + mini-ISA machine (Impl/SelfTestMachine.lean) + verified simulation checker; tools/gen_selftest.py translator; harness/drv_fips.c"},
        {"name": "HashMB", "path": "lean/IsalVerif/Impl/HashMB.lean", "serves_properties": ["C01", "C06", "C11", "C15", "C20"],
         "kind_free_text": "hand-written Lean model of ctx layer + lane scheduler; correspondence harness harness/drv_hash.c"},
        {"name": "CtxC", "path": "lean/IsalVerif/Impl/PadC.lean", "serves_properties": ["C01", "C06", "C11", "C15", "C16", "C20"],
         "kind_free_text": "T-route for the C context layer: tools/gen_hashpad.py + tools/gen_submit.py (clang-14 JSON AST) translate hash_pad and the "
                           "bookkeeping prefix of _ctx_mgr_submit_ of the 23 SIMD-family files into Impl/PadC.lean / Impl/SubmitC.lean programs, "
                           "tools/gen_resubmit.py + gen_topup.py the resubmit loop body and the top-up block (Impl/ResubmitC.lean, TopUpC.lean); "
                           "Lemmas/{PadC,SubmitC,ResubmitC,TopUpC}Proofs.lean prove them against Impl/HashMB.lean for all inputs; "
                           "GenProps/{HashPad,SubmitPrefix,Resubmit,TopUp}.lean are the per-run obligations; harness/drv_hashpad.c, drv_submit.c "
                           "#include the .c file and run the real functions in-process (correspondence / witness replay)"},
    ],
    "checks": checks,
    "not_applicable": na,
    "notes": "All checks: python3 tools/check.py <id>; they rebuild /repo's working tree out of tree (tools/build_repo.py, "
             "content-addressed cache under /var/tmp/isalverif-cache), re-check the Lean theorems (lake build + axiom audit), "
             "run the correspondence harness and write evidence/<id>.json.",
}
json.dump(m, open(os.path.join(V, "MANIFEST.json"), "w"), indent=1)
print("claimed", len(checks), "not_applicable", len(na))
