"""Engine AES: correspondence of every AES family entry point (GCM one-shot/streaming incl. NT, XTS
raw/expanded, CBC, key expansion) with the Lean specs / GcmStream model + OpenSSL monitors."""
import os, subprocess
from concurrent.futures import ThreadPoolExecutor
import vlib

GCM = ["sse", "avx_gen2", "avx_gen4", "vaes_avx512", "sse_nt", "avx_gen2_nt", "avx_gen4_nt", "vaes_avx512_nt", "pub", "pub_nt"]
XTS = ["sse", "avx", "vaes", "pub"]
CBC = ["x4_sse", "x8_avx", "x8_vaes_avx512", "pub"]
KEYEXP = ["sse", "avx", "pub"]


def run_one(drv, what, fam, seed, nops, maxlen, only=None, env=None):
    d = vlib.scratch()
    tag = "%s_%s_%d" % (what, fam, seed)
    ops = os.path.join(d, "aops_" + tag)
    res = os.path.join(d, "ares_" + tag)
    e = dict(os.environ)
    e.update(env or {})
    tag += "_" + "_".join("%s%s" % kv for kv in sorted((env or {}).items()))
    ops = os.path.join(d, "aops_" + tag)
    res = os.path.join(d, "ares_" + tag)
    r = subprocess.run([drv, what, fam, str(seed), str(nops), str(maxlen), ops, res], capture_output=True, text=True, env=e)
    out = {"what": what, "fam": fam, "args": [what, fam, str(seed), str(nops), str(maxlen)], "exit": r.returncode, "env": dict(env or {})}
    if r.returncode not in (0, 3) or not os.path.exists(res):
        out.update({"monitors": ["CRASH exit=%d %s" % (r.returncode, r.stderr[-200:])], "diffs": [], "ops": 0, "hist": {}, "crash": True, "impl_lines": []})
        return out
    with open(ops) as fh:
        m = subprocess.run([vlib.MODEL_BIN], stdin=fh, capture_output=True, text=True)
    impl = [l for l in open(res).read().split("\n") if l]
    monitors = [l for l in impl if l.startswith("MONITOR")]
    il = [l for l in impl if not l.startswith("MONITOR") and not l.startswith("END")]
    ml = [l for l in m.stdout.split("\n") if l]
    ol = open(ops).read().split("\n")
    diffs, hist = [], {}
    for i in range(max(len(il), len(ml))):
        a = il[i] if i < len(il) else "<missing>"
        b = ml[i] if i < len(ml) else "<missing>"
        op = ol[i] if i < len(ol) else "?"
        k = op.split()[0] if op.split() else "?"
        if k in ("GU", "GO", "X", "C"):
            t = op.split()
            ln = int(t[2]) if k in ("GU", "GO") else int(t[6]) if k == "X" else int(t[5])
            k += ":" + ("0" if ln == 0 else "<16" if ln < 16 else "16k" if ln % 16 == 0 else "tail") + (":big" if ln >= 512 else "")
        hist[k] = hist.get(k, 0) + 1
        if a != b and len(diffs) < 5:
            diffs.append({"line": i + 1, "op": op, "impl": a[:260], "model": b[:260]})
    out.update({"monitors": monitors, "diffs": diffs, "ops": len(il), "hist": hist, "impl_lines": il,
                "sample": [ol[i] + " -> " + il[i][:100] for i in range(1, min(4, len(il), len(ol)))]})
    for p in (ops, res):
        try:
            os.remove(p)
        except OSError:
            pass
    return out


def sweep(drv, jobs, env=None):
    with ThreadPoolExecutor(max_workers=16) as ex:
        return list(ex.map(lambda j: run_one(drv, *j, env=env), jobs))


ALL = [("gcm", f) for f in GCM] + [("xts", f) for f in XTS] + [("cbc", f) for f in CBC] + [("keyexp", f) for f in KEYEXP]
