#!/usr/bin/env python3
"""Translator (T-route) for C17, portable gate: regenerates IsalVerif/Gen/SelfTestGeneric.lean from the
`FIPS_MODE=y arch=noarch` build of the current tree (variant `fipsnoarch` of tools/build_repo.py).

  (a) `isal_self_tests` of objs/self_tests_generic.o as a program over the mini-ISA of
      IsalVerif/Impl/SelfTestGenericMachine.lean (calls of `_aes_self_tests`, `_sha_self_tests`, `usleep` kept
      symbolic), and the initial content of the status word `self_tests_status` (a function-local static);
  (b) the sets of values `_aes_self_tests` / `_sha_self_tests` can return, from their C sources (same
      extractor as tools/gen_selftest.py);
  (c) closed-world facts: which objects define `isal_self_tests` (must be self_tests_generic.o alone: the x86
      gate self_tests.o / asm_self_tests.o must be absent from this build), which objects import the two
      self-test functions, whether the status word is a file-local symbol, references to it from outside the
      translated function, `isal_*` imports of the self-test objects, other functions defined in the object;
  (d) two facts about the C source that the x86 object code cannot show (x86 compiles acquire/release/relaxed
      and seq_cst loads alike, and only seq_cst *stores* differently): the `memory_order_*` tokens used in
      fips/self_tests_generic.c and whether the status word is declared `static atomic_int` / `static _Atomic int`.

Nothing is judged here.  Whatever is not recognised is emitted as `.unsupported` (instructions) or as the
value 999 (return expressions), which makes the Lean obligations in GenProps/SelfTestGeneric.lean fail.

usage: gen_selftest_generic.py [--out FILE] [--build DIR] [--name NAMESPACE_SUFFIX] [--quiet]
"""
import os, re, subprocess, sys

HERE = os.path.dirname(os.path.abspath(__file__))
for p in (HERE, "/verif/tools"):
    if p not in sys.path:
        sys.path.append(p)
import disasm  # noqa: E402
import gen_selftest as base  # noqa: E402  (reachable, return_values, isal_imports, lean_str, lean_prog)

UNKNOWN = base.UNKNOWN
MASK32 = 0xFFFFFFFF
GATE_OBJ = "self_tests_generic.o"
STATUS_RE = re.compile(r"^self_tests_status(\.\d+)?$")
CALLS = {"_aes_self_tests": ".call .aes", "_sha_self_tests": ".call .sha", "usleep": ".callSleep"}
REG32, REG64, IMM_RE = base.REG32, base.REG64, base.IMM_RE


def status_symbol(o):
    """(name, section, offset, nm class) of the status word: the only object symbol named self_tests_status[.N]"""
    c = [(n, s[0], s[1], s[2]) for n, s in o.symbols.items() if STATUS_RE.match(n)]
    return c[0] if len(c) == 1 else None


def mem_is_status(o, loc, ins, operand):
    """does the rip-relative dword operand of `ins` address the status word?"""
    if loc is None or ins.reloc is None or not re.match(r"^DWORD PTR \[rip\+0x[0-9a-f]+\]$", operand):
        return False
    kind, sym, add, roff = ins.reloc
    if kind != "R_X86_64_PC32":
        return False
    if sym == loc[1]:                      # section symbol (.data / .bss)
        basev = 0
    elif sym in o.symbols and o.symbols[sym][0] == loc[1]:
        basev = o.symbols[sym][1]
    else:
        return False
    # PC32: value = S + A - P; the CPU adds the address of the next instruction = P + (size - roff)
    return basev + add + (ins.size - roff) == loc[2]


def translate(o, fname, loc):
    """-> list of (lean_instr, asm_text) for function `fname` of object `o`, or None"""
    sym = o.symbols.get(fname)
    if sym is None:
        return None
    ins = base.reachable(o, sym[0], sym[1])
    if ins is None:
        return None
    addrs = sorted(ins)
    idx = {a: i for i, a in enumerate(addrs)}
    out = []
    for n, a in enumerate(addrs):
        i = ins[a]
        mn, ops = i.mnem, i.ops
        t = [x.strip() for x in ops.split(",")] if ops else []
        lean, falls = None, True
        st = lambda k: mem_is_status(o, loc, i, t[k])  # noqa: E731
        if i.prefix and not (i.prefix == ["lock"] and mn in ("cmpxchg", "xchg")) and mn != "nop":
            lean = None
        elif mn in ("nop", "endbr64") or (mn == "xchg" and t == ["ax", "ax"]):
            lean = ".nop"
        elif mn == "pause":
            lean = ".pause"
        elif mn == "mfence" and not t:
            lean = ".mfence"
        elif mn in ("push", "pop") and len(t) == 1 and t[0] in REG64:
            lean = ".%s .%s" % (mn, REG64[t[0]])
        elif mn in ("sub", "add") and len(t) == 2 and t[0] == "rsp" and IMM_RE.match(t[1]) \
                and int(t[1], 0) % 8 == 0 and 0 < int(t[1], 0) <= 512:
            lean = ".%sRsp %d" % (mn, int(t[1], 0) // 8)
        elif mn == "mov" and len(t) == 2 and t[0] in REG32 and IMM_RE.match(t[1]):
            lean = ".movImm .%s %d" % (REG32[t[0]], int(t[1], 0) & MASK32)
        elif mn == "mov" and len(t) == 2 and t[0] in REG32 and t[1] in REG32:
            lean = ".movRR .%s .%s" % (REG32[t[0]], REG32[t[1]])
        elif mn == "mov" and len(t) == 2 and t[0] in REG32 and st(1):
            lean = ".load .%s" % REG32[t[0]]
        elif mn == "mov" and len(t) == 2 and t[1] in REG32 and st(0):
            lean = ".store .%s" % REG32[t[1]]
        elif mn == "mov" and len(t) == 2 and IMM_RE.match(t[1]) and st(0):
            lean = ".storeImm %d" % (int(t[1], 0) & MASK32)
        elif mn == "xchg" and len(t) == 2 and t[1] in REG32 and st(0):
            lean = ".xchgMem .%s" % REG32[t[1]]
        elif mn == "xchg" and len(t) == 2 and t[0] in REG32 and st(1):
            lean = ".xchgMem .%s" % REG32[t[0]]
        elif mn == "xor" and len(t) == 2 and t[0] == t[1] and t[0] in REG32:
            lean = ".xorSelf .%s" % REG32[t[0]]
        elif mn == "or" and len(t) == 2 and t[0] in REG32 and t[1] in REG32:
            lean = ".orRR .%s .%s" % (REG32[t[0]], REG32[t[1]])
        elif mn == "test" and len(t) == 2 and t[0] in REG32 and t[1] in REG32:
            lean = ".testRR .%s .%s" % (REG32[t[0]], REG32[t[1]])
        elif mn == "test" and len(t) == 2 and t[0] in REG32 and IMM_RE.match(t[1]):
            lean = ".testImm .%s %d" % (REG32[t[0]], int(t[1], 0) & MASK32)
        elif mn == "cmp" and len(t) == 2 and t[0] in REG32 and IMM_RE.match(t[1]):
            lean = ".cmpImm .%s %d" % (REG32[t[0]], int(t[1], 0) & MASK32)
        elif mn == "cmp" and len(t) == 2 and t[0] in REG32 and t[1] in REG32:
            lean = ".cmpRR .%s .%s" % (REG32[t[0]], REG32[t[1]])
        elif mn == "cmp" and len(t) == 2 and IMM_RE.match(t[1]) and st(0):
            lean = ".cmpMemImm %d" % (int(t[1], 0) & MASK32)
        elif mn == "cmpxchg" and i.prefix == ["lock"] and len(t) == 2 and t[1] in REG32 and st(0):
            lean = ".lockCmpxchg .%s" % REG32[t[1]]
        elif mn in ("je", "jz", "jne", "jnz", "jmp") and i.reloc is None:
            m = re.match(r"^([0-9a-f]+) <", ops)
            if m and int(m.group(1), 16) in idx:
                lean = ".%s %d" % ({"je": "je", "jz": "je", "jne": "jne", "jnz": "jne", "jmp": "jmp"}[mn],
                                   idx[int(m.group(1), 16)])
            falls = mn != "jmp"
        elif mn == "call" and i.reloc is not None and i.reloc[0] in ("R_X86_64_PLT32", "R_X86_64_PC32") \
                and i.reloc[2] == -4 and i.reloc[1] in CALLS:
            lean = CALLS[i.reloc[1]]
        elif mn == "ret" and not t:
            lean = ".ret"
            falls = False
        # fall-through must lead to the next translated instruction
        if falls and lean is not None and (n + 1 >= len(addrs) or addrs[n + 1] != a + i.size):
            lean = None
        text = (" ".join(i.prefix + [mn]) + " " + ops).strip()
        if i.reloc:
            text += "   {%s %s%+d}" % (i.reloc[0], i.reloc[1], i.reloc[2])
        out.append((lean or ".unsupported", "%x: %s" % (a, text)))
    return out


def read_word(path, sec, off):
    """32-bit little-endian content at `sec`+`off` of the object file, or 999 (.bss: 0)"""
    if sec == ".bss":
        return 0
    r = subprocess.run(["objdump", "-s", "-j", sec, path], capture_output=True, text=True).stdout
    data = {}
    for line in r.split("\n"):
        m = re.match(r"^ ([0-9a-f]+) ((?:[0-9a-f]+ ){1,4})", line)
        if m:
            b0 = int(m.group(1), 16)
            for k, x in enumerate(bytes.fromhex(m.group(2).replace(" ", ""))):
                data[b0 + k] = x
    try:
        return sum(data[off + k] << (8 * k) for k in range(4))
    except KeyError:
        return UNKNOWN


def stray_status_refs(o, loc, translated_addrs):
    """instructions of the object outside the translated function that carry a relocation against the
    section of the status word (or against the symbol itself)"""
    res = []
    for sec, code in o.insns.items():
        for a, i in sorted(code.items()):
            if i.reloc and a not in translated_addrs:
                sym = i.reloc[1]
                if loc and (sym == loc[1] or sym == loc[0] or (sym in o.symbols and o.symbols[sym][0] == loc[1])):
                    res.append("%s+%x" % (sec, a))
    return res


def source_facts(srcdir):
    """(sorted distinct memory_order_* tokens, status word declared atomic) of fips/self_tests_generic.c"""
    path = os.path.join(srcdir, "fips", "self_tests_generic.c")
    if not os.path.exists(path):
        return ["source not found"], False
    raw = open(path, encoding="utf-8", errors="replace").read()
    # comments and strings out, preprocessor lines kept (a macro could hide an order)
    text = re.sub(r"/\*.*?\*/", " ", raw, flags=re.S)
    text = re.sub(r"//[^\n]*", " ", text)
    orders = sorted(set(re.findall(r"\bmemory_order_\w+|\b__ATOMIC_\w+", text)))
    decl = re.search(r"\bstatic\s+(?:atomic_int|_Atomic\s+int|_Atomic\s*\(\s*int\s*\))\s+self_tests_status\b", text)
    return orders, bool(decl)


def nm_table(objdir):
    """[(object, class, symbol)] for all objects"""
    objs = sorted(f for f in os.listdir(objdir) if f.endswith(".o"))
    r = subprocess.run(["nm", "-A"] + objs, cwd=objdir, capture_output=True, text=True).stdout
    rows = []
    for line in r.split("\n"):
        m = re.match(r"^([^:]+):\s*(?:[0-9a-f]+)?\s+([A-Za-z])\s+(\S+)$", line)
        if m:
            rows.append((m.group(1), m.group(2), m.group(3)))
    return rows


def generate(build, name="SelfTestGeneric"):
    objdir = os.path.join(build, "objs")
    path = os.path.join(objdir, GATE_OBJ)
    o = disasm.Obj(path) if os.path.exists(path) else None
    loc = status_symbol(o) if o else None
    prog = translate(o, "isal_self_tests", loc) if o else None
    init = read_word(path, loc[1], loc[2]) if loc else UNKNOWN
    translated = {int(t.split(":")[0], 16) for _, t in prog or []}
    stray = stray_status_refs(o, loc, translated) if o else [GATE_OBJ + " missing"]
    local = bool(loc and loc[3] in ("d", "b"))
    rows = base.return_values(os.path.join(build, "src"))
    nm = nm_table(objdir) if os.path.isdir(objdir) else []
    definers = sorted({ob for ob, c, s in nm if s == "isal_self_tests" and c in "TtWw"})
    imp = {f: sorted({ob for ob, c, s in nm if s == f and c == "U"}) for f in ("_aes_self_tests", "_sha_self_tests")}
    x86gate = sorted({ob for ob, c, s in nm if ob in ("self_tests.o", "asm_self_tests.o")}
                     | {ob for ob, c, s in nm if s in ("asm_check_self_tests_status", "asm_set_self_tests_status")})
    other_funcs = sorted(s for s, v in (o.symbols.items() if o else []) if v[2] in "TtWw" and s != "isal_self_tests")
    gated = base.isal_imports(objdir, ["aes_self_tests.o", "sha_self_tests.o"])
    orders, decl_atomic = source_facts(os.path.join(build, "src"))

    L = ["import IsalVerif.Impl.SelfTestGenericMachine",
         "/-! GENERATED by tools/gen_selftest_generic.py from the FIPS_MODE=y arch=noarch build of the current tree —",
         "    do not edit.  Instruction comments: address, disassembly, relocation. -/",
         "namespace IsalVerif.Gen.%s" % name,
         "open IsalVerif.SelfTest (Reg)",
         "open IsalVerif.SelfTestGeneric", ""]
    L += base.lean_prog("topProg", "`isal_self_tests` (objs/%s)" % GATE_OBJ, prog) + [""]
    L += ["/-- content of `%s` in `%s` of %s -/" % (loc[0] if loc else "self_tests_status", loc[1] if loc else "?", GATE_OBJ),
          "def initialStatus : Nat := %d" % init, "",
          "def program : Program := ⟨topProg, initialStatus⟩", ""]
    L += ["/-- (function, possible C `int` return value, where it comes from); 999 = not understood -/",
          "def returnTable : List (String × Int × String) := ["]
    L += [",\n".join("  (%s, %d, %s)" % (base.lean_str(f), v, base.lean_str(s)) for f, v, s in rows), "]", ""]
    for fn, nm_ in (("_aes_self_tests", "aesReturnValues"), ("_sha_self_tests", "shaReturnValues")):
        L += ["def %s : List Int := [%s]" % (nm_, ", ".join(str(v) for f, v, s in rows if f == fn))]
    L += ["/-- all values the self-test functions can return -/",
          "def selfTestReturnValues : List Int := aesReturnValues ++ shaReturnValues", ""]
    L += ["/-- objects of the library that define `isal_self_tests` (must be %s alone) -/" % GATE_OBJ,
          "def gateDefiners : List String := [%s]" % ", ".join(base.lean_str(x) for x in definers),
          "/-- objects / symbols of the x86 gate present in this build (must be none: otherwise this is not the",
          "    portable configuration) -/",
          "def x86GateObjects : List String := [%s]" % ", ".join(base.lean_str(x) for x in x86gate),
          "/-- objects that import each self-test function (closed world: only %s may) -/" % GATE_OBJ,
          "def importers : List (String × List String) := ["]
    L += [",\n".join("  (%s, [%s])" % (base.lean_str(s), ", ".join(base.lean_str(x) for x in imp[s])) for s in sorted(imp)), "]"]
    L += ["/-- the status word is a file-local symbol of %s -/" % GATE_OBJ,
          "def statusSymbolLocal : Bool := %s" % ("true" if local else "false"),
          "/-- instructions of %s outside `isal_self_tests` that reference the status word -/" % GATE_OBJ,
          "def strayStatusRefs : List String := [%s]" % ", ".join(base.lean_str(x) for x in stray),
          "/-- other functions defined in %s -/" % GATE_OBJ,
          "def otherFunctions : List String := [%s]" % ", ".join(base.lean_str(x) for x in other_funcs),
          "/-- `isal_*` symbols imported by aes_self_tests.o / sha_self_tests.o (re-entering the gate would deadlock) -/",
          "def selfTestIsalImports : List String := [%s]" % ", ".join(base.lean_str(x) for x in gated),
          "/-- `memory_order_*` / `__ATOMIC_*` tokens in fips/self_tests_generic.c (the model is sequentially consistent:",
          "    only `memory_order_seq_cst`, or none = the implicit default, is accepted) -/",
          "def sourceMemoryOrders : List String := [%s]" % ", ".join(base.lean_str(x) for x in orders),
          "/-- the status word is declared `static atomic_int self_tests_status` -/",
          "def statusDeclAtomic : Bool := %s" % ("true" if decl_atomic else "false"),
          "", "end IsalVerif.Gen.%s" % name, ""]
    summary = {"orders": orders, "decl_atomic": decl_atomic,"prog": prog, "init": init, "rows": rows, "importers": imp, "local": local, "stray": stray,
               "gated": gated, "definers": definers, "x86gate": x86gate, "status": loc, "other": other_funcs}
    return "\n".join(L), summary


def main(argv):
    build, quiet, name, out = None, False, "SelfTestGeneric", None
    k = 0
    while k < len(argv):
        if argv[k] == "--out":
            out = argv[k + 1]; k += 2
        elif argv[k] == "--build":
            build = argv[k + 1]; k += 2
        elif argv[k] == "--name":
            name = argv[k + 1]; k += 2
        elif argv[k] == "--quiet":
            quiet = True; k += 1
        else:
            sys.exit(__doc__)
    if out is None:
        out = os.path.join(os.path.dirname(HERE), "IsalVerif", "Gen", name + ".lean")
        if not os.path.isdir(os.path.dirname(out)):
            out = os.path.join(os.path.dirname(HERE), "lean", "IsalVerif", "Gen", name + ".lean")
    if build is None:
        import build_repo
        build = build_repo.get_build("fipsnoarch")
    text, s = generate(build, name)
    old = open(out).read() if os.path.exists(out) else None
    if old != text:
        tmp = out + ".tmp%d" % os.getpid()
        with open(tmp, "w") as fh:
            fh.write(text)
        os.replace(tmp, out)
    if not quiet:
        print("build: %s" % build)
        print("isal_self_tests (%s):" % GATE_OBJ)
        for k, (ins, t) in enumerate(s["prog"] or [(".unsupported", "function not found")]):
            print("  %2d  %-22s %s" % (k, ins, t))
        print("status word: %s, initial value %d" % (s["status"], s["init"]))
        print("return values:")
        for f, v, src in s["rows"]:
            print("  %-16s %4d  %s%s" % (f, v, src, "" if v in (0, 1) else "   <-- not 0/1"))
        print("definers of isal_self_tests: %s; x86 gate objects: %s" % (s["definers"], s["x86gate"]))
        print("importers: %s" % s["importers"])
        print("status symbol local: %s; stray refs: %s; other functions: %s; isal_ imports of self-test objects: %s"
              % (s["local"], s["stray"], s["other"], s["gated"]))
        print("source: memory orders %s; status word declared atomic: %s" % (s["orders"], s["decl_atomic"]))
        n_uns = sum(1 for ins, _ in (s["prog"] or [(".unsupported", "")]) if ins == ".unsupported")
        print("unsupported instructions: %d" % n_uns)
        print("%s %s" % ("wrote" if old != text else "unchanged", out))
    return 0


if __name__ == "__main__":
    sys.exit(main(sys.argv[1:]))
