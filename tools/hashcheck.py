"""Engine HashMB: correspondence of the 28 (algorithm, family) context managers with the Lean
model + implementation-side property monitors.  Used by C01, C06, C11, C15 (and C08/C20 parts)."""
import os, subprocess, json, re
from concurrent.futures import ThreadPoolExecutor
import vlib

FAMILIES = [
    ("sha1", f) for f in ("base", "sse", "avx", "avx2", "avx512", "sse_ni", "avx512_ni")
] + [("sha256", f) for f in ("base", "sse", "avx", "avx2", "avx512", "sse_ni", "avx512_ni")
] + [("sha512", f) for f in ("base", "sse", "avx", "avx2", "avx512", "sb_sse4")
] + [("md5", f) for f in ("base", "sse", "avx", "avx2", "avx512")
] + [("sm3", f) for f in ("base", "avx2", "avx512")]

PUB = [(a, "pub") for a in ("sha1", "sha256", "sha512", "md5", "sm3")]

BLOCK = {"sha1": 64, "sha256": 64, "sha512": 128, "md5": 64, "sm3": 64}


def len_class(alg, n):
    B = BLOCK[alg]
    if n == 0:
        return "0"
    if n < B:
        return "<B"
    if n == B:
        return "=B"
    if n % B == 0:
        return "kB"
    if n < 4 * B:
        return "<4B"
    return "big"


def run_one(drv, alg, fam, seed, nops, maxlen, reject_pct, poison=0, keep=False, model=None, env=None):
    if model is None:
        model = fam != 'pub'
    d = vlib.scratch()
    tag = "%s_%s_%d_%d_%d_%s" % (alg, fam, seed, reject_pct, poison, "_".join("%s%s" % kv for kv in sorted((env or {}).items())))
    ops = os.path.join(d, "ops_" + tag)
    res = os.path.join(d, "res_" + tag)
    args = [drv, alg, fam, str(seed), str(nops), str(maxlen), str(reject_pct), ops, res, str(poison)]
    e = dict(os.environ)
    e.update(env or {})
    r = subprocess.run(args, capture_output=True, text=True, env=e)
    out = {"alg": alg, "fam": fam, "args": args[1:7] + [str(poison)], "exit": r.returncode, "stderr": r.stderr[-500:]}
    if r.returncode not in (0, 3):
        out["crash"] = True
        out["monitors"] = ["CRASH exit=%d %s" % (r.returncode, r.stderr[-200:])]
        out["diffs"] = []
        out["ops"] = 0
        out["hist"] = {}
        return out
    impl = [l for l in open(res).read().split("\n") if l]
    monitors = [l for l in impl if l.startswith("MONITOR")]
    impl_lines = [l for l in impl if not l.startswith("MONITOR") and not l.startswith("END")]
    if model:
        with open(ops) as fh:
            m = subprocess.run([vlib.MODEL_BIN], stdin=fh, capture_output=True, text=True)
        model_lines = [l for l in m.stdout.split("\n") if l]
    else:
        model_lines = impl_lines
    oplines = open(ops).read().split("\n")
    diffs = []
    n = max(len(impl_lines), len(model_lines))
    for i in range(n):
        a = impl_lines[i] if i < len(impl_lines) else "<missing>"
        b = model_lines[i] if i < len(model_lines) else "<missing>"
        if a != b:
            diffs.append({"line": i + 1, "op": oplines[i] if i < len(oplines) else "?", "impl": a[:300], "model": b[:300]})
            if len(diffs) >= 5:
                break
    hist = {}
    nrej = 0
    for l, rl in zip(oplines, impl_lines):
        if l.startswith("S "):
            t = l.split()
            k = "S flags=%s len=%s" % (t[2] if int(t[2]) < 4 else "bad", len_class(alg, int(t[3])))
            hist[k] = hist.get(k, 0) + 1
            if "rejected" in rl:
                nrej += 1
        elif l.startswith("F"):
            k = "F ret" if not rl.startswith("r=-") else "F null"
            hist[k] = hist.get(k, 0) + 1
    out.update({"monitors": monitors, "diffs": diffs, "ops": len(impl_lines), "hist": hist, "rejected": nrej, "impl_lines": impl_lines,
                "sample": [oplines[i] + " -> " + impl_lines[i][:120] for i in range(1, min(4, len(impl_lines), len(oplines)))]})
    if not keep:
        for p in (ops, res):
            try:
                os.remove(p)
            except OSError:
                pass
    return out


def sweep(chk, drv, nops, maxlen, reject_pct, seeds, families=None, poison=0, env=None):
    fams = families or FAMILIES
    jobs = [(a, f, s) for (a, f) in fams for s in seeds]
    with ThreadPoolExecutor(max_workers=16) as ex:
        results = list(ex.map(lambda j: run_one(drv, j[0], j[1], j[2], nops, maxlen, reject_pct, poison, env=env), jobs))
    return results


def minimize(drv, r, maxlen, kind):
    """smallest op budget that still shows a monitor failure of `kind` (same seed => same prefix)"""
    a = r["args"]
    alg, fam, seed, nops, mx, rej, poison = a[0], a[1], int(a[2]), int(a[3]), int(a[4]), int(a[5]), int(a[6])
    lo, hi = 1, nops
    best = None
    while lo < hi:
        mid = (lo + hi) // 2
        rr = run_one(drv, alg, fam, seed, mid, mx, rej, poison)
        if any(kind in m for m in rr["monitors"]) or rr.get("crash"):
            hi = mid
            best = rr
        else:
            lo = mid + 1
    if best is None:
        best = run_one(drv, alg, fam, seed, hi, mx, rej, poison)
    return best
