#!/usr/bin/env python3
"""Teeth test for the C17 portable-gate obligations.

For each edit of fips/self_tests_generic.c (the seeded `atomic_exchange` claim from seed_exchange.diff, three
other defects, and harmless rewrites): copy the sources of the clean `fipsnoarch` build to a scratch
directory, apply the edit, rebuild `make -f Makefile.unx -j16 FIPS_MODE=y arch=noarch lib` there, run the
translator on that build (-> IsalVerif/Gen/SelfTestGenericMut.lean), instantiate the *unchanged* obligation
file GenProps/SelfTestGeneric.lean for it (-> GenProps/SelfTestGenericMut.lean) and `lake build` it.
For the seed additionally build GenProps/SelfTestGenericSeedWitness.lean: the kernel-checked schedule that
leaves two threads waiting forever on the freshly compiled code.

usage: teeth_generic.py [--work DIR] [--keep] [name ...]
Exit status 0 iff every defect is rejected and every edit marked `expect accept` is accepted.
"""
import os, re, shutil, subprocess, sys, time

HERE = os.path.dirname(os.path.abspath(__file__))
ROOT = os.path.dirname(HERE)
LEAN = ROOT if os.path.isdir(os.path.join(ROOT, "IsalVerif")) else os.path.join(ROOT, "lean")
sys.path.insert(0, HERE)
import build_repo  # noqa: E402

GATE = "fips/self_tests_generic.c"
MAKE = ["make", "-f", "Makefile.unx", "-j16", "FIPS_MODE=y", "arch=noarch", "lib"]


def sub1(text, old, new):
    if text.count(old) != 1:
        raise RuntimeError("edit does not apply: %r occurs %d times" % (old, text.count(old)))
    return text.replace(old, new)


def e_exchange(t):
    t = sub1(t, "        int self_tests_not_done = SELF_TEST_NOT_DONE;\n", "")
    return sub1(t, "        if (atomic_compare_exchange_strong(&self_tests_status, &self_tests_not_done,\n"
                   "                                           SELF_TEST_RUNNING)) {",
                "        if (atomic_exchange(&self_tests_status, SELF_TEST_RUNNING) == SELF_TEST_NOT_DONE) {")


def e_drop_fail_store(t):
    return sub1(t, "                if (_aes_self_tests() != 0) {\n"
                   "                        atomic_store(&self_tests_status, SELF_TEST_DONE_AND_FAIL);\n",
                "                if (_aes_self_tests() != 0) {\n")


def e_no_wait(t):
    return sub1(t, "                while (atomic_load(&self_tests_status) == SELF_TEST_RUNNING)\n"
                   "                        SLEEP(TIME);\n", "")


def e_fast_running(t):
    return sub1(t, "        if (atomic_load(&self_tests_status) == SELF_TEST_DONE_AND_OK)\n                return 0;",
                "        if (atomic_load(&self_tests_status) == SELF_TEST_RUNNING)\n                return 0;")


def e_swap_fast(t):
    return sub1(t, "        if (atomic_load(&self_tests_status) == SELF_TEST_DONE_AND_OK)\n"
                   "                return 0;\n\n"
                   "        if (atomic_load(&self_tests_status) == SELF_TEST_DONE_AND_FAIL)\n"
                   "                return ISAL_CRYPTO_ERR_SELF_TEST;\n",
                "        if (atomic_load(&self_tests_status) == SELF_TEST_DONE_AND_FAIL)\n"
                "                return ISAL_CRYPTO_ERR_SELF_TEST;\n\n"
                "        if (atomic_load(&self_tests_status) == SELF_TEST_DONE_AND_OK)\n"
                "                return 0;\n")


def e_explicit(t):
    n = t.count("atomic_load(&self_tests_status)")
    if n != 3:
        raise RuntimeError("expected 3 atomic_load, found %d" % n)
    t = t.replace("atomic_load(&self_tests_status)", "atomic_load_explicit(&self_tests_status, memory_order_seq_cst)")
    t = re.sub(r"atomic_store\(&self_tests_status, (\w+)\)",
               r"atomic_store_explicit(&self_tests_status, \1, memory_order_seq_cst)", t)
    return t


def e_one_fast(t):
    return sub1(t, "        if (atomic_load(&self_tests_status) == SELF_TEST_DONE_AND_FAIL)\n"
                   "                return ISAL_CRYPTO_ERR_SELF_TEST;\n\n", "")


def e_single_load(t):
    return sub1(t, "        if (atomic_load(&self_tests_status) == SELF_TEST_DONE_AND_OK)\n"
                   "                return 0;\n\n"
                   "        if (atomic_load(&self_tests_status) == SELF_TEST_DONE_AND_FAIL)\n"
                   "                return ISAL_CRYPTO_ERR_SELF_TEST;\n",
                "        const int seen = atomic_load(&self_tests_status);\n"
                "        if (seen == SELF_TEST_DONE_AND_OK)\n"
                "                return 0;\n"
                "        if (seen == SELF_TEST_DONE_AND_FAIL)\n"
                "                return ISAL_CRYPTO_ERR_SELF_TEST;\n")


def e_relaxed_store(t):
    return sub1(t, "                atomic_store(&self_tests_status, SELF_TEST_DONE_AND_OK);",
                "                atomic_store_explicit(&self_tests_status, SELF_TEST_DONE_AND_OK, memory_order_release);")


def e_sha_first(t):
    t = sub1(t, "if (_aes_self_tests() != 0) {", "if (_XX_self_tests() != 0) {")
    t = sub1(t, "if (_sha_self_tests() != 0) {", "if (_aes_self_tests() != 0) {")
    return sub1(t, "if (_XX_self_tests() != 0) {", "if (_sha_self_tests() != 0) {")


# name -> (edit, expectation, description)
EDITS = {
    # the seed is applied from the diff file when it is there (patch -p1), else by the equivalent edit
    "seed_exchange": (os.path.join(ROOT, "seed_exchange.diff"), "reject", "SEED: claim by atomic_exchange(&status, RUNNING) == NOT_DONE instead of CAS"),
    "drop_fail_store": (e_drop_fail_store, "reject", "defect: store of DONE_AND_FAIL dropped on the AES-failure path"),
    "no_wait": (e_no_wait, "reject", "defect: loser returns without waiting for RUNNING to go away"),
    "fast_running": (e_fast_running, "reject", "defect: first early-out load compares with RUNNING instead of DONE_AND_OK"),
    "swap_fast": (e_swap_fast, "accept", "harmless: the two early-out checks swapped (FAIL first, then OK)"),
    "explicit_seq_cst": (e_explicit, "accept", "harmless: atomic_load/store_explicit(..., memory_order_seq_cst)"),
    "one_fast": (e_one_fast, "accept", "harmless: second early-out load removed"),
    "single_load": (e_single_load, "accept", "harmless: one early-out load, compared with both verdicts"),
    "release_store": (e_relaxed_store, "reject", "weaker order: publishing store of OK with memory_order_release (same x86 protocol, plain mov; caught by the source fact)"),
    "sha_first": (e_sha_first, "report", "behaviour change: SHA self tests before AES self tests"),
}


def sh(cmd, cwd=None):
    r = subprocess.run(cmd, cwd=cwd, capture_output=True, text=True)
    return r.returncode, r.stdout + r.stderr


def build_mutant(clean, work, name, edit):
    d = os.path.join(work, name)
    shutil.rmtree(d, ignore_errors=True)
    os.makedirs(d)
    src = os.path.join(d, "src")
    shutil.copytree(os.path.join(clean, "src"), src)
    path = os.path.join(src, GATE)
    if isinstance(edit, str) and os.path.exists(edit):
        rc, out = sh(["patch", "-p1", "-i", edit], cwd=src)
        if rc != 0:
            raise RuntimeError("patch %s does not apply:\n%s" % (edit, out))
    else:
        edit = e_exchange if isinstance(edit, str) else edit
        text = edit(open(path).read())
        open(path, "w").write(text)
    rc, diff = sh(["diff", "-u", os.path.join(clean, "src", GATE), path])
    open(os.path.join(d, "edit.diff"), "w").write(diff)
    rc, out = sh(MAKE, cwd=src)
    if rc != 0:
        raise RuntimeError("build of mutant %s failed:\n%s" % (name, out[-2000:]))
    shutil.copy2(os.path.join(src, "bin", "isa-l_crypto.a"), os.path.join(d, "isa-l_crypto.a"))
    os.makedirs(os.path.join(d, "objs"))
    subprocess.run(["ar", "x", os.path.join(d, "isa-l_crypto.a")], cwd=os.path.join(d, "objs"), check=True)
    return d, diff


def instantiate_obligations():
    """GenProps/SelfTestGeneric.lean, unchanged except for the module it talks about"""
    t = open(os.path.join(LEAN, "IsalVerif", "GenProps", "SelfTestGeneric.lean")).read()
    t = t.replace("IsalVerif.Gen.SelfTestGeneric", "IsalVerif.Gen.SelfTestGenericMut")
    t = t.replace("IsalVerif.GenProps.SelfTestGeneric", "IsalVerif.GenProps.SelfTestGenericMut")
    open(os.path.join(LEAN, "IsalVerif", "GenProps", "SelfTestGenericMut.lean"), "w").write(t)


WITNESS = '''import IsalVerif.Gen.SelfTestGenericMut
import IsalVerif.Props.C17Generic
/-! GENERATED by tools/teeth_generic.py: the failing schedule, checked on the freshly compiled seeded code. -/
namespace IsalVerif.GenProps.SelfTestGenericSeedWitness
open IsalVerif.SelfTestGeneric IsalVerif.Gen.SelfTestGenericMut

#eval IO.println s!"witness schedule (thread, #instructions, outcome): {exchangeSchedule}; orbit size {(orbit program [0, 1] 3 (crunList program (CG.init program 3) exchangeSchedule)).length}; state reached: status={(crunList program (CG.init program 3) exchangeSchedule).status} (pc,res) per thread={(crunList program (CG.init program 3) exchangeSchedule).th.map fun l => (l.pc, l.res)}"

/-- on the seeded code: a reachable state (tests passed once, thread 0 returned 0) from which no continuation
    lets thread 1 or the later caller thread 2 return; the status word stays RUNNING -/
theorem seed_breaks_C17 :
    ∃ g, CReach program [0, 1] 3 g ∧ stuckState g = true ∧ ∀ g', CSteps program [0, 1] g g' → stuckState g' = true :=
  exchangeWitness_sound (by decide +kernel)

#print axioms seed_breaks_C17
end IsalVerif.GenProps.SelfTestGenericSeedWitness
'''


def main(argv):
    work, keep, names = "/tmp/agent_c17g_mut", False, []
    k = 0
    while k < len(argv):
        if argv[k] == "--work":
            work = argv[k + 1]; k += 2
        elif argv[k] == "--keep":
            keep = True; k += 1
        else:
            names.append(argv[k]); k += 1
    names = names or list(EDITS)
    clean = build_repo.get_build("fipsnoarch")
    os.makedirs(work, exist_ok=True)
    gen = os.path.join(LEAN, "IsalVerif", "Gen", "SelfTestGenericMut.lean")
    wit = os.path.join(LEAN, "IsalVerif", "GenProps", "SelfTestGenericSeedWitness.lean")
    instantiate_obligations()
    rows, bad = [], 0
    for name in names:
        edit, expect, desc = EDITS[name]
        t0 = time.time()
        d, diff = build_mutant(clean, work, name, edit)
        rc, listing = sh([sys.executable, os.path.join(HERE, "gen_selftest_generic.py"), "--build", d,
                          "--name", "SelfTestGenericMut", "--out", gen])
        open(os.path.join(d, "translator.txt"), "w").write(listing)
        rc, out = sh(["lake", "build", "IsalVerif.GenProps.SelfTestGenericMut"], cwd=LEAN)
        open(os.path.join(d, "lake.txt"), "w").write(out)
        verdict = "accepted" if rc == 0 else "REJECTED"
        why = ""
        if rc != 0:
            m = re.search(r"error: [^\n]*?(C17 \(portable gate\)[^\n]*)", out)
            why = m.group(1) if m else out.strip().split("\n")[-5:][0]
        extra = ""
        if name == "seed_exchange":
            open(wit, "w").write(WITNESS)
            rc2, out2 = sh(["lake", "build", "IsalVerif.GenProps.SelfTestGenericSeedWitness"], cwd=LEAN)
            open(os.path.join(d, "witness.txt"), "w").write(out2)
            info = [l for l in out2.split("\n") if "witness schedule" in l or "depends on axioms" in l]
            extra = ("witness schedule kernel-checked: " + " | ".join(x.split("info: ")[-1] for x in info)) if rc2 == 0 \
                else "WITNESS DID NOT CHECK (see witness.txt)"
            if rc2 != 0:
                bad += 1
        ok = (expect == "reject" and rc != 0) or (expect == "accept" and rc == 0) or expect == "report"
        bad += 0 if ok else 1
        rows.append((name, desc, expect, verdict, why, extra, time.time() - t0))
        print("%-18s expect=%-6s -> %s  (%.1fs)%s" % (name, expect, verdict, time.time() - t0, "" if ok else "   <== UNEXPECTED"))
        print("    " + desc)
        if why:
            print("    " + why[:1200])
        if extra:
            print("    " + extra)
        sys.stdout.flush()
    if not keep:
        for f in (gen, wit, os.path.join(LEAN, "IsalVerif", "GenProps", "SelfTestGenericMut.lean")):
            if os.path.exists(f):
                os.remove(f)
    print("teeth: %d edits, %d unexpected" % (len(rows), bad))
    return 1 if bad else 0


if __name__ == "__main__":
    sys.exit(main(sys.argv[1:]))
