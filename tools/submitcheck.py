"""submit-prefix T-route (tools/gen_submit.py -> Gen/SubmitPrefix.lean -> GenProps/SubmitPrefix.lean).  When the per-run
obligation fails, a witness (flags, len, context state) is searched on the regenerated model (Lean `findWitness`) and
replayed on the real function (harness/drv_submit.c #includes the context-layer file).  Used by C11, C15, C16."""
import hashlib, json, os, re, subprocess, sys
sys.path.insert(0, os.path.dirname(os.path.abspath(__file__)))
import vlib, gen_submit

THMS = ["IsalVerif.GenProps.SubmitPrefix.all_canon", "IsalVerif.GenProps.SubmitPrefix.all_count",
        "IsalVerif.GenProps.SubmitPrefix.submit_prefix_current", "IsalVerif.GenProps.SubmitPrefix.all_canon_base",
        "IsalVerif.GenProps.SubmitPrefix.all_count_base", "IsalVerif.GenProps.SubmitPrefix.base_prefix_current",
        "IsalVerif.SubmitC.canonBase_run", "IsalVerif.SubmitC.base_prefix_refines", "IsalVerif.SubmitC.canon_run",
        "IsalVerif.SubmitC.canon_run_eq", "IsalVerif.SubmitC.prefix_refines"]


def lean_witnesses():
    """[(file, fn, reach, (fl, ln, st, tot, pl))] for every generated prefix that differs from the specification"""
    src = ("import IsalVerif.Gen.SubmitPrefix\nimport IsalVerif.Lemmas.SubmitCProofs\nopen IsalVerif.SubmitC\n"
           "#eval (IsalVerif.Gen.SubmitPrefix.all.map fun x => (x.file, x.fn, findWitness true x.prog, findWitness false x.prog, "
           "decide (x.prog = canon)))\n")
    path = os.path.join(vlib.scratch(), "submit_witness.lean")
    open(path, "w").write(src)
    vlib.lake_build(["IsalVerif.Gen.SubmitPrefix", "IsalVerif.Lemmas.SubmitCProofs"])
    r = vlib.run(["lake", "env", "lean", path], cwd=vlib.LEAN)
    out = []
    flat = re.sub(r"\s+", " ", r.stdout)
    for m in re.finditer(r'\("([^"]+)", "([^"]+)", (none|some \(([\d, ]+)\)), (none|some \(([\d, ]+)\)), (true|false)\)', flat):
        f, fn, w1, w2, same = m.group(1), m.group(2), m.group(4), m.group(6), m.group(7) == "true"
        if not same:
            out.append((f, fn, tuple(int(x) for x in w1.split(",")) if w1 else None, tuple(int(x) for x in w2.split(",")) if w2 else None))
    return out, r.stdout[-400:] + r.stderr[-400:]


def expected(fl, ln, st, tot):
    """error and total_length after the call, from the specification (specRun)"""
    if fl // 4 != 0:
        return -1, tot
    if st % 2 == 1:
        return -2, tot
    if st // 4 % 2 == 1 and fl % 2 == 0:
        return -3, tot
    return 0, ((0 if fl % 2 == 1 else tot) + ln) % (1 << 64)


def replay_real(b, rel, fn, w):
    src = os.path.join(b, "src")
    alg = os.path.basename(rel).split("_ctx_")[0].upper()
    h = hashlib.sha256(open(os.path.join(vlib.HARNESS, "drv_submit.c"), "rb").read() + rel.encode()).hexdigest()[:12]
    out = os.path.join(b, "drv_submit.%s.%s" % (rel.replace("/", "_"), h))
    if not os.path.exists(out):
        cmd = ["gcc", "-O1", "-g", "-I", os.path.join(src, "include"), "-I", src, '-DCTXFILE="%s"' % os.path.join(src, rel),
               "-DCTXT=ISAL_%s_HASH_CTX" % alg, "-DMGRT=ISAL_%s_HASH_CTX_MGR" % alg, "-DF_SUBMIT=" + fn,
               "-DF_INIT=" + fn.replace("_submit_", "_init_"), "-DF_FLUSH=" + fn.replace("_submit_", "_flush_"),
               "-Wl,--allow-multiple-definition", "-o", out, os.path.join(vlib.HARNESS, "drv_submit.c"), os.path.join(b, "isa-l_crypto.a")]
        r = vlib.run(cmd)
        if r.returncode:
            return None, "compile failed: " + r.stderr[-300:]
    fl, ln, st, tot, pl = w
    r = subprocess.run([out], input="%d %d %d %d %d\n" % w, capture_output=True, text=True, timeout=60)
    m = re.search(r"SUBMIT same=(\d) err=(-?\d+) total=(\d+) others_unchanged=(-?\d+)", r.stdout)
    if not m:
        return None, "no result (exit %d) %s" % (r.returncode, r.stdout[-100:])
    err, total, unch = int(m.group(2)), int(m.group(3)), int(m.group(4))
    eerr, etot = expected(fl, ln, st, tot)
    bad = err != eerr or total != etot or (eerr != 0 and unch == 0)
    return bad, "real function: error=%d total_length=%d others_unchanged=%d; specification: error=%d total_length=%d" % (err, total, unch, eerr, etot)


def obligations(chk, tier):
    b = vlib.build_repo.get_build("default")
    src = os.path.join(b, "src")
    try:
        rows = gen_submit.main([src, vlib.LEAN])
        gen_err = ""
    except Exception as e:
        rows, gen_err = [], str(e)[:300]
    chk.oblige("translator: submit prefix of %d context-layer files -> Gen/SubmitPrefix.lean" % len(rows), bool(rows) and not gen_err, gen_err)
    failed = vlib.lean_obligations(chk, "IsalVerif.GenProps.SubmitPrefix", THMS) if rows else [("gen_submit", gen_err)]
    chk.cov["submit_prefix"] = {"functions": len(rows), "theorems": THMS}
    if not failed:
        return True
    wit, raw = lean_witnesses()
    reported = False
    for f, fn, w1, w2 in wit:
        w = w1 or w2
        real = (None, "not replayed (state outside what a context can be in)")
        if w1:
            real = replay_real(b, f, fn, w1)
        confirmed = real[0] is True
        chk.violation("submit prefix of %s no longer the proved one%s" % (fn, (": flags=%d len=%d status=%d total_length=%d partial=%d" % w) if w else ""),
                      {"kind": "submit-prefix", "file": f, "fn": fn, "witness": list(w) if w else None, "reachable_state": bool(w1),
                       "real_code": real[1], "broken_obligations": [x[0] for x in failed],
                       "note": "witness = (flags, len, ctx->status, ctx->total_length, ctx->partial_block_buffer_length) on which the "
                               "translated prefix differs from SubmitC.specRun; replayed by harness/drv_submit.c on the real function"},
                      no_input=not confirmed, match={"file": f, "monitor": "submit-prefix"})
        reported = True
    if not reported:
        for name, detail in failed:
            chk.violation("Lean obligation no longer checks: %s" % name, {"kind": "obligation", "obligation": name, "detail": detail, "search": raw},
                          no_input=True)
    return False


def replay(rp):
    b = vlib.build_repo.get_build("default")
    if not rp.get("witness") or not rp.get("reachable_state"):
        print("replay: model-level witness only")
        return 1
    bad, txt = replay_real(b, rp["file"], rp["fn"], tuple(rp["witness"]))
    print("replay:", txt)
    return 1 if bad else 0
