#!/usr/bin/env python3
"""T-route for the loop body of the static C function `<alg>_ctx_mgr_resubmit` of every SIMD-family context-layer file:
clang-14 JSON AST -> flat guarded statements of lean/IsalVerif/Impl/ResubmitC.lean -> lean/IsalVerif/Gen/Resubmit.lean.

  gen_resubmit.py <repo-src-dir> <lean-dir>

Nested `if`s are flattened: the value of each condition (conjoined with the guard of the enclosing block) is stored in a
guard local (10, 11, ... in order of appearance) and every statement carries the guard of its block.  `if (ctx)` inside
the `while (ctx)` loop is read as always true (ctx is only reassigned immediately before a `continue`).  Locals: len = 0,
copy_len = 1, n_extra_blocks = 2.  Anything outside the language becomes `.unsupported`.  Trusted: clang's parse and type
resolution; this translator; `memcpy_*`(dst, src, n) = byte copy; `assert` has no effect.
"""
import glob, json, os, re, subprocess, sys
sys.path.insert(0, os.path.dirname(os.path.abspath(__file__)))
from gen_hashpad import NoFit, kids, ctype, strip, callee
import gen_submit
from gen_submit import width, clang_json, enum_table

FIELDS = {"status": "status", "total_length": "total", "partial_block_buffer_length": "plen", "incoming_buffer_length": "inlen"}
FW = {"status": 32, "total_length": 64, "partial_block_buffer_length": 32, "incoming_buffer_length": 32}
LOCALS = {"len": 0, "copy_len": 1, "n_extra_blocks": 2}


class Tr(gen_submit.Tr):
    topup = False
    expect_submit = None

    def __init__(self, enums):
        super().__init__(enums)
        self.alias = {}

    def expr(self, n):
        k = n.get("kind")
        c = self.const(n)
        if c is not None:
            bits, sg = width(n)
            return ".lit %d" % (c % (1 << (64 if sg else bits)) if c < 0 else c)
        if k == "ParenExpr":
            return self.expr(kids(n)[0])
        if k == "DeclRefExpr":
            nm = n["referencedDecl"]["name"]
            if nm in LOCALS and width(n) == (32, False):
                return "(.loc %d)" % LOCALS[nm]
            raise NoFit("variable " + nm)
        if k == "MemberExpr":
            f = self.member(n)
            if f in FIELDS and width(n) == (FW[f], False):
                return "(.fld .%s)" % FIELDS[f]
            raise NoFit("field " + str(f))
        if k in ("ImplicitCastExpr", "CStyleCastExpr"):
            ck = n.get("castKind")
            inner = kids(n)[0]
            if ck in ("LValueToRValue", "NoOp"):
                return self.expr(inner)
            if ck == "IntegralCast":
                bits, sg = width(n)
                ib, isg = width(inner)
                i0 = strip(inner)
                truth = (i0.get("kind") == "BinaryOperator" and i0.get("opcode") in ("<", ">", "<=", ">=", "==", "!=", "&&", "||")) or \
                        (i0.get("kind") == "UnaryOperator" and i0.get("opcode") == "!")
                if (sg or isg) and not (truth and not sg):
                    raise NoFit("signed conversion of a non-constant")
                return self.expr(inner) if bits >= ib else "(.trunc %d (%s))" % (bits, self.expr(inner))
            raise NoFit("cast " + str(ck))
        if k == "UnaryOperator" and n.get("opcode") == "!":
            return "(.lnot (%s))" % self.expr(kids(n)[0])
        if k == "BinaryOperator":
            op = n["opcode"]
            a, b = kids(n)
            if op in ("&&", "||"):
                return "(.%s (%s) (%s))" % ("land" if op == "&&" else "lor", self.expr(a), self.expr(b))
            if op in ("<", "==", ">=", ">", "<="):
                if width(a)[1] or width(b)[1]:
                    raise NoFit("signed comparison")
                ea, eb = self.expr(a), self.expr(b)
                return {"<": "(.lt (%s) (%s))" % (ea, eb), "==": "(.eq (%s) (%s))" % (ea, eb),
                        ">=": "(.lnot (.lt (%s) (%s)))" % (ea, eb), ">": "(.lt (%s) (%s))" % (eb, ea),
                        "<=": "(.lnot (.lt (%s) (%s)))" % (eb, ea)}[op]
            bits, sg = width(n)
            if sg:
                raise NoFit("signed arithmetic on a non-constant")
            if op == ">>":
                sh = self.const(b)
                if sh is None or not 0 <= sh < bits:
                    raise NoFit("shift count")
                return "(.shr (%s) %d)" % (self.expr(a), sh)
            if op in ("/", "%"):
                cb = self.const(b)
                if cb is None or cb <= 0 or cb & (cb - 1):
                    raise NoFit("operator %s by a non-power of two" % op)
                if op == "/":
                    return "(.shr (%s) %d)" % (self.expr(a), cb.bit_length() - 1)
                return "(.and (%s) (.lit %d))" % (self.expr(a), cb - 1)
            names = {"+": "add", "-": "sub", "&": "and", "|": "or"}
            if op not in names:
                raise NoFit("operator " + op)
            e = "(.%s (%s) (%s))" % (names[op], self.expr(a), self.expr(b))
            return "(.trunc %d %s)" % (bits, e) if (op in "+-" and bits < 64) else e
        raise NoFit("expression " + str(k))

    # ---------------------------------------------------------------- pointers
    def ptr(self, n):
        """'incoming' / 'part' for an expression denoting the caller's buffer / ctx->partial_block_buffer, else None"""
        n = strip(n)
        if n.get("kind") == "DeclRefExpr":
            if self.topup and n["referencedDecl"]["name"] == "buffer" and n["referencedDecl"].get("kind") == "ParmVarDecl":
                return "incoming"
            return self.alias.get(n["referencedDecl"]["name"])
        if n.get("kind") == "UnaryOperator" and n.get("opcode") == "&":      # &ctx->partial_block_buffer
            return self.ptr(kids(n)[0])
        if n.get("kind") == "MemberExpr":
            f = self.member(n)
            return {"incoming_buffer": "incoming", "partial_block_buffer": "part"}.get(f)
        return None

    def job_field(self, n):
        """`ctx->job.<f>` -> f"""
        n = strip(n) if n.get("kind") == "ParenExpr" else n
        if n.get("kind") == "MemberExpr" and not n.get("isArrow"):
            b = kids(n)[0]
            if b.get("kind") == "MemberExpr" and self.member(b) == "job":
                return n.get("name")
        return None

    def has(self, n, pred):
        return pred(n) or any(self.has(c, pred) for c in kids(n))

    # ---------------------------------------------------------------- statements
    def walk(self, stmts, guard, out):
        i = 0
        while i < len(stmts):
            s = stmts[i]
            i += 1
            try:
                k = s.get("kind")
                g = "none" if guard is None else "(some %d)" % guard
                emit = lambda b: out.append("⟨%s, %s⟩" % (g, b))
                if k == "NullStmt":
                    continue
                if k == "DeclStmt":
                    for v in kids(s):
                        nm = v.get("name")
                        init = kids(v)
                        if nm in ("buffer", "buf") and init and self.ptr(init[0]):
                            self.alias[nm] = self.ptr(init[0])
                        elif nm in LOCALS and init and not (self.topup and nm == "len"):
                            ie = strip(init[0])
                            if nm == "n_extra_blocks" and ie.get("kind") == "CallExpr" and callee(ie) == "hash_pad":
                                a = kids(ie)[1:]
                                if len(a) != 2 or self.ptr(a[0]) != "part" or self.member(strip(a[1])) != "total_length":
                                    raise NoFit("hash_pad arguments")
                                emit(".pad %d" % LOCALS[nm])
                            else:
                                e = self.expr(init[0])
                                emit(".setLoc %d (%s)" % (LOCALS[nm], e))
                        elif nm == "j" and not init:
                            pass
                        else:
                            raise NoFit("declaration of " + str(nm))
                    continue
                if k == "IfStmt":
                    parts = kids(s)
                    if len(parts) != 2:
                        raise NoFit("if with else")
                    cond, then = parts
                    tb = kids(then) if then.get("kind") == "CompoundStmt" else [then]
                    c0 = strip(cond)
                    if c0.get("kind") == "DeclRefExpr" and c0["referencedDecl"]["name"] == "ctx":
                        self.walk(tb, guard, out)      # ctx is non-NULL inside `while (ctx)` (reassigned only before `continue`)
                        continue
                    gid = self.next_guard
                    self.next_guard += 1
                    ce = self.expr(cond)
                    if guard is not None:
                        ce = "(.land (.loc %d) (%s))" % (guard, ce)
                    out.append("⟨none, .setLoc %d (%s)⟩" % (gid, ce))
                    self.walk(tb, gid, out)
                    continue
                if k == "ReturnStmt":
                    r = strip(kids(s)[0])
                    if r.get("kind") == "DeclRefExpr" and r["referencedDecl"]["name"] == "ctx":
                        emit(".ret")
                        continue
                    raise NoFit("return of something else than ctx")
                if k == "ForStmt":
                    txt = json.dumps(s)
                    if "result_digest" in txt and "__builtin_bswap32" in txt and txt.count('"opcode": "="') == 2 \
                            and self.for_bound(s) is not None:
                        emit(".finDigest")
                        continue
                    raise NoFit("for loop")
                if k == "BinaryOperator" and s.get("opcode") == "=":
                    lhs, rhs = kids(s)
                    f = self.member(lhs)
                    jf = self.job_field(lhs)
                    l0 = strip(lhs)
                    if f in FIELDS:
                        emit(".setF .%s (%s)" % (FIELDS[f], self.expr(rhs)))
                        continue
                    if l0.get("kind") == "DeclRefExpr" and l0["referencedDecl"]["name"] in LOCALS and \
                            l0["referencedDecl"].get("kind") == "VarDecl":
                        emit(".setLoc %d (%s)" % (LOCALS[l0["referencedDecl"]["name"]], self.expr(rhs)))
                        continue
                    if self.topup and f == "incoming_buffer":
                        r = strip(rhs)
                        if r.get("kind") == "BinaryOperator" and r.get("opcode") == "+" and self.ptr(kids(r)[0]) == "incoming":
                            emit(".advIn (%s)" % self.expr(kids(r)[1]))
                            continue
                        raise NoFit("incoming_buffer store")
                    if jf == "buffer":
                        p = self.ptr(rhs)
                        if p is None:
                            raise NoFit("job.buffer")
                        self.job_buf = p
                        continue
                    if jf == "len":
                        self.job_len = self.expr(rhs)
                        continue
                    if l0.get("kind") == "DeclRefExpr" and l0["referencedDecl"]["name"] == "ctx":
                        r = strip(rhs)
                        if r.get("kind") == "CallExpr" and re.search(r"_mb_mgr_submit_|_sb_mgr_submit_", callee(r) or "") and \
                                self.expect_submit and not re.fullmatch(self.expect_submit, callee(r)):
                            raise NoFit("calls %s (another algorithm / family)" % callee(r))
                        if self.topup and r.get("kind") == "CallExpr" and re.search(r"_mb_mgr_submit_|_sb_mgr_submit_", callee(r) or "") \
                                and self.job_buf == "part" and self.job_len:
                            emit(".submitPart (%s)" % self.job_len)
                            self.job_buf = self.job_len = None
                            continue
                        if r.get("kind") == "CallExpr" and re.search(r"_mb_mgr_submit_|_sb_mgr_submit_", callee(r) or "") \
                                and self.job_buf and self.job_len and i < len(stmts) and stmts[i].get("kind") == "ContinueStmt":
                            i += 1
                            emit(".submit %s (%s)" % ("true" if self.job_buf == "part" else "false", self.job_len))
                            self.job_buf = self.job_len = None
                            continue
                        raise NoFit("assignment to ctx")
                    raise NoFit("assignment")
                if k == "CompoundAssignOperator":
                    lhs, rhs = kids(s)
                    l0 = strip(lhs)
                    op = s.get("opcode", "")
                    if l0.get("kind") == "DeclRefExpr" and l0["referencedDecl"]["name"] in LOCALS:
                        li = LOCALS[l0["referencedDecl"]["name"]]
                        if op == "-=":
                            emit(".setLoc %d (.trunc 32 (.sub (.loc %d) (%s)))" % (li, li, self.expr(rhs)))
                            continue
                        if op == ">>=":
                            sh = self.const(rhs)
                            if sh is None or not 0 <= sh < 32:
                                raise NoFit("shift count")
                            emit(".setLoc %d (.shr (.loc %d) %d)" % (li, li, sh))
                            continue
                    f = self.member(lhs)
                    if self.topup and f in FIELDS and op == "+=":
                        emit(".setF .%s (.trunc 32 (.add (.fld .%s) (%s)))" % (FIELDS[f], FIELDS[f], self.expr(rhs)))
                        continue
                    raise NoFit("compound assignment")
                if k == "CallExpr":
                    cal = callee(s) or ""
                    a = kids(s)[1:]
                    if self.topup and re.fullmatch(r"memcpy|memcpy_\w+", cal) and len(a) == 3 and self.ptr(a[1]) == "incoming":
                        d = strip(a[0])
                        if d.get("kind") == "UnaryOperator" and d.get("opcode") == "&":
                            sub = strip(kids(d)[0])
                            if sub.get("kind") == "ArraySubscriptExpr" and self.ptr(kids(sub)[0]) == "part":
                                emit(".cpyHead (%s) (%s)" % (self.expr(kids(sub)[1]), self.expr(a[2])))
                                continue
                        raise NoFit("top-up copy")
                    if re.fullmatch(r"memcpy|memcpy_\w+", cal) and len(a) == 3 and self.ptr(a[0]) == "part":
                        src = strip(a[1])
                        if src.get("kind") == "BinaryOperator" and src.get("opcode") == "+" and self.ptr(kids(src)[0]) == "incoming":
                            emit(".cpyTail (%s) (%s)" % (self.expr(kids(src)[1]), self.expr(a[2])))
                            continue
                    raise NoFit("call " + cal)
                if self.has(s, lambda n: n.get("kind") == "CallExpr" and callee(n) == "__assert_fail") and \
                        not self.has(s, lambda n: n.get("kind") in ("CompoundAssignOperator",) or
                                     (n.get("kind") == "BinaryOperator" and n.get("opcode") == "=") or
                                     (n.get("kind") == "UnaryOperator" and n.get("opcode") in ("++", "--"))):
                    continue      # assert(...)
                raise NoFit("statement " + str(k))
            except NoFit as e:
                out.append('⟨none, .unsupported "%s"⟩' % str(e).replace('"', "'")[:80])
            except Exception as e:
                out.append('⟨none, .unsupported "translator: %s"⟩' % type(e).__name__)

    FORDER = [".setF .plen", ".advIn", ".setF .inlen", ".setF .status", ".setF .total"]

    def reorder(self, out):
        """adjacent field stores (and the advance of `incoming_buffer`) under the same guard, to different fields, whose
        right-hand sides do not read the other's field, commute: bring them into the order of today's source"""
        def info(t):
            m = re.match(r"⟨(.*?), \.setF \.(\w+) (.*)⟩$", t)
            if m:
                return (m.group(1), m.group(2), set(re.findall(r"\.fld \.(\w+)", m.group(3))), ".setF ." + m.group(2))
            m = re.match(r"⟨(.*?), \.advIn (.*)⟩$", t)
            if m:
                return (m.group(1), "inptr", set(re.findall(r"\.fld \.(\w+)", m.group(2))), ".advIn")
            return None
        changed = True
        while changed:
            changed = False
            for i in range(len(out) - 1):
                a, b = info(out[i]), info(out[i + 1])
                if a and b and a[0] == b[0] and a[1] != b[1] and a[1] not in b[2] and b[1] not in a[2] and \
                        a[3] in self.FORDER and b[3] in self.FORDER and self.FORDER.index(a[3]) > self.FORDER.index(b[3]):
                    out[i], out[i + 1] = out[i + 1], out[i]
                    changed = True
        return out

    def for_bound(self, s):
        for c in kids(s):
            if c.get("kind") == "BinaryOperator" and c.get("opcode") == "<":
                return self.const(kids(c)[1])
        return None

    def function(self, body):
        self.alias, self.next_guard, self.job_buf, self.job_len = {}, 10, None, None
        st = kids(body)
        if len(st) != 2 or st[0].get("kind") != "WhileStmt" or st[1].get("kind") != "ReturnStmt":
            return ['⟨none, .unsupported "function is not `while (ctx) {…} return NULL;`"⟩']
        cond, wb = kids(st[0])
        c0 = strip(cond)
        if c0.get("kind") != "DeclRefExpr" or c0["referencedDecl"]["name"] != "ctx":
            return ['⟨none, .unsupported "loop condition"⟩']
        out = []
        self.walk(kids(wb), None, out)
        return self.reorder(out)


def ctx_files(repo):
    fs = []
    for p in sorted(glob.glob(os.path.join(repo, "*_mb", "*_ctx_*.c"))):
        b = os.path.basename(p)
        if b.endswith("_base.c") or b.endswith("_base_aliases.c"):
            continue
        m = re.search(r"^(\w+_ctx_mgr_resubmit)\(.*\)\s*$", open(p).read(), flags=re.M)
        if m:
            fs.append((os.path.relpath(p, repo), m.group(1)))
    return fs


def main(argv=None):
    argv = argv or sys.argv[1:]
    repo, lean = argv[0], argv[1]
    tr = Tr(enum_table(repo))
    rows = []
    for rel, fn in ctx_files(repo):
        try:
            body = None
            alg_, fam_ = os.path.basename(rel)[:-2].split("_ctx_")
            tr.expect_submit = r"_%s_(mb|sb)_mgr_submit_%s" % (re.escape(alg_), re.escape({"avx512_ni": "avx512"}.get(fam_, fam_).replace("sb_", "")))   # by design the avx512_ni family submits through the avx512 manager (same layout; its own flush)
            for d in clang_json(repo, rel, fn):
                if d.get("kind") == "FunctionDecl" and d.get("name") == fn:
                    cs = [c for c in kids(d) if c.get("kind") == "CompoundStmt"]
                    if cs:
                        body = cs[0]
            prog = tr.function(body) if body is not None else ['⟨none, .unsupported "no definition"⟩']
        except NoFit as e:
            prog = ['⟨none, .unsupported "%s"⟩' % str(e).replace('"', "'")[:80]]
        rows.append((rel, os.path.basename(rel).split("_ctx_")[0], prog))
    out = ["import IsalVerif.Impl.ResubmitC",
           "/-! GENERATED by tools/gen_resubmit.py from the current tree: loop body of every SIMD-family resubmit. Do not edit. -/",
           "namespace IsalVerif.Gen.Resubmit", "open IsalVerif.ResubmitC", ""]
    names = []
    for k, (rel, alg, prog) in enumerate(rows):
        names.append("r%d" % k)
        out.append("def r%d : Src := { file := \"%s\", alg := \"%s\", prog := [\n  %s] }" % (k, rel, alg, ",\n  ".join(prog)))
    out += ["", "def all : List Src := [%s]" % ", ".join(names), "", "end IsalVerif.Gen.Resubmit"]
    dst = os.path.join(lean, "IsalVerif", "Gen", "Resubmit.lean")
    txt = "\n".join(out) + "\n"
    if not os.path.exists(dst) or open(dst).read() != txt:
        open(dst, "w").write(txt)
    uns = sum(1 for _, _, p in rows for s in p if ".unsupported" in s)
    print("resubmit loop: %d functions, %d unsupported statements -> %s" % (len(rows), uns, dst))
    return rows


if __name__ == "__main__":
    main()
