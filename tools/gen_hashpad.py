#!/usr/bin/env python3
"""T-route for `hash_pad`: translate the C function `hash_pad` of every `*_mb/*_ctx_*.c` file of the current tree
(clang-14 JSON AST, types and implicit conversions as clang resolved them) into the statement language of
lean/IsalVerif/Impl/PadC.lean and write lean/IsalVerif/Gen/HashPad.lean.

  gen_hashpad.py <repo-src-dir> <lean-dir>

Everything that does not fit the language becomes `S.unsupported "<what>"`, which no Lean obligation accepts.
Trusted here: clang's parse and type resolution, `-fgnuc-version=4.9.0` (so that include/endian_helper.h selects
`__builtin_bswap64` as it does under gcc), the meaning of `__builtin_bswap64`, `memclr_*_fixedlen(p, n)` /
`memset(p, 0, n)` = "n zero bytes at p" (include/memcpy_inline.h is exercised by the correspondence run, not translated).
"""
import glob, json, os, re, subprocess, sys

INC = ["include", "."]


class NoFit(Exception):
    pass


def clang_ast(repo, rel):
    cmd = ["clang-14", "-fsyntax-only", "-Wno-everything", "-fgnuc-version=4.9.0", "-Xclang", "-ast-dump=json",
           "-Xclang", "-ast-dump-filter=hash_pad"] + ["-I" + os.path.join(repo, d) for d in INC] + [os.path.join(repo, rel)]
    p = subprocess.run(cmd, capture_output=True, text=True)
    if p.returncode != 0:
        raise NoFit("clang failed: " + p.stderr[:300])
    docs, dec, s, i = [], json.JSONDecoder(), p.stdout, 0
    while i < len(s):
        while i < len(s) and s[i] in " \n\r\t":
            i += 1
        if i >= len(s):
            break
        d, i = dec.raw_decode(s, i)
        docs.append(d)
    return docs


def kids(n):
    return [c for c in n.get("inner", []) if c.get("kind") not in ("FullComment", "TargetAttr", "AlwaysInlineAttr")]


def ctype(n):
    t = n.get("type", {})
    return t.get("desugaredQualType") or t.get("qualType") or ""


def width(n):
    """(bits, signed) of an integer-typed node"""
    t = ctype(n).replace("const ", "").strip()
    table = {"unsigned long": (64, False), "unsigned long long": (64, False), "uint64_t": (64, False), "size_t": (64, False),
             "unsigned int": (32, False), "uint32_t": (32, False), "int": (32, True), "long": (64, True),
             "unsigned char": (8, False), "uint8_t": (8, False)}
    if t not in table:
        raise NoFit("type " + t)
    return table[t]


def const(n):
    """value of a constant (literal-only) expression as C computes it, or None"""
    k = n.get("kind")
    if k == "IntegerLiteral":
        return int(n["value"])
    if k in ("ParenExpr", "ConstantExpr"):
        return const(kids(n)[0])
    if k in ("ImplicitCastExpr", "CStyleCastExpr") and n.get("castKind") in ("IntegralCast", "NoOp"):
        v = const(kids(n)[0])
        if v is None:
            return None
        b, sg = width(n)
        v %= 1 << b
        return v - (1 << b) if sg and v >= 1 << (b - 1) else v
    if k == "UnaryOperator" and n.get("opcode") == "-":
        v = const(kids(n)[0])
        return None if v is None else -v
    if k == "BinaryOperator":
        a, b_ = (const(c) for c in kids(n))
        if a is None or b_ is None:
            return None
        op = n["opcode"]
        bits, sg = width(n)
        try:
            v = {"+": a + b_, "-": a - b_, "*": a * b_, "&": a & b_, "|": a | b_, "<<": a << b_, ">>": a >> b_}[op]
        except (KeyError, ValueError):
            return None
        if sg:
            if not -(1 << (bits - 1)) <= v < 1 << (bits - 1):
                return None      # signed overflow is undefined: do not fold
            return v
        return v % (1 << bits)
    return None


def lit(v, bits=64):
    return ".lit %d" % (v % (1 << bits))


def expr(n):
    """Lean term of type PadC.E for an integer expression node (value = C value zero-extended to 64 bits)"""
    k = n.get("kind")
    c = const(n)
    if c is not None:
        bits, sg = width(n)
        return lit(c, 64 if sg else bits) if c < 0 else lit(c)
    if k == "ParenExpr":
        return expr(kids(n)[0])
    if k == "DeclRefExpr":
        nm = n["referencedDecl"]["name"]
        if nm == "total_len" and width(n) == (64, False):
            return ".total"
        if nm == "i" and width(n) == (32, False):
            return ".i"
        raise NoFit("variable " + nm)
    if k in ("ImplicitCastExpr", "CStyleCastExpr"):
        ck = n.get("castKind")
        inner = kids(n)[0]
        if ck in ("LValueToRValue", "NoOp"):
            return expr(inner)
        if ck == "IntegralCast":
            bits, sg = width(n)
            ib, isg = width(inner)
            if sg or isg:
                raise NoFit("signed conversion of a non-constant")
            if bits >= ib:
                return expr(inner)          # zero extension
            return "(.trunc %d (%s))" % (bits, expr(inner))
        raise NoFit("cast " + str(ck))
    if k == "BinaryOperator":
        op = n["opcode"]
        bits, sg = width(n)
        if sg:
            raise NoFit("signed arithmetic on a non-constant")
        a, b = kids(n)
        if op in ("<<", ">>"):
            sh = const(b)
            if sh is None or not 0 <= sh < bits:
                raise NoFit("shift count")
            e = "(.%s (%s) %d)" % ("shl" if op == "<<" else "shr", expr(a), sh)
            return "(.trunc %d %s)" % (bits, e) if (op == "<<" and bits < 64) else e
        if op in ("*", "/", "%"):
            # exact identities of unsigned arithmetic, applied so that `x * 8`, `i / 64`, `t % 64` are read like the shift /
            # mask forms: (x * 2^k) mod 2^w = (x << k) mod 2^w,  x / 2^k = x >> k,  x mod 2^k = x & (2^k - 1)
            cb, ca = const(b), const(a)
            if op == "*" and cb is None and ca is not None:
                a, b, cb = b, a, ca
            if cb is None or cb <= 0 or cb & (cb - 1):
                raise NoFit("operator %s by a non-power of two" % op)
            kk = cb.bit_length() - 1
            if op == "*":
                e = "(.shl (%s) %d)" % (expr(a), kk)
                return "(.trunc %d %s)" % (bits, e) if bits < 64 else e
            if op == "/":
                return "(.shr (%s) %d)" % (expr(a), kk)
            return "(.and (%s) (.lit %d))" % (expr(a), cb - 1)
        names = {"+": "add", "-": "sub", "&": "and", "|": "or"}
        if op not in names:
            raise NoFit("operator " + op)
        e = "(.%s (%s) (%s))" % (names[op], expr(a), expr(b))
        return "(.trunc %d %s)" % (bits, e) if (op in "+-" and bits < 64) else e
    if k == "CallExpr":
        cal = callee(n)
        if cal == "__builtin_bswap64":
            return "(.bswap64 (%s))" % expr(kids(n)[1])
        raise NoFit("call " + str(cal))
    raise NoFit("expression " + str(k))


def strip(n):
    while n.get("kind") in ("ParenExpr", "ImplicitCastExpr", "CStyleCastExpr") and kids(n):
        n = kids(n)[0]
    return n


def callee(n):
    f = strip(kids(n)[0])
    return f.get("referencedDecl", {}).get("name") if f.get("kind") == "DeclRefExpr" else None


def pad_index(n):
    """n = `&padblock[e]` (through casts) or `padblock[e]` -> e"""
    n = strip(n)
    if n.get("kind") == "UnaryOperator" and n.get("opcode") == "&":
        n = strip(kids(n)[0])
    if n.get("kind") != "ArraySubscriptExpr":
        raise NoFit("address " + str(n.get("kind")))
    base, idx = kids(n)
    b = strip(base)
    if b.get("kind") != "DeclRefExpr" or b["referencedDecl"]["name"] != "padblock":
        raise NoFit("base of the subscript")
    return expr(idx)


def stmt(n):
    k = n.get("kind")
    if k == "DeclStmt":
        (v,) = kids(n)
        if v.get("kind") != "VarDecl" or v.get("name") != "i" or width(v) != (32, False) or not kids(v):
            raise NoFit("declaration")
        return ".declI (%s)" % wrap32(kids(v)[0])
    if k == "CallExpr":
        cal = callee(n) or ""
        args = kids(n)[1:]
        if re.fullmatch(r"memclr_\w*fixedlen", cal) and len(args) == 2:
            sz = const(args[1])
        elif cal == "memset" and len(args) == 3 and const(args[1]) == 0:
            sz = const(args[2])
        else:
            raise NoFit("call " + cal)
        if sz is None or sz < 0:
            raise NoFit("size of the clear")
        return ".memclr (%s) %d" % (pad_index(args[0]), sz)
    if k == "BinaryOperator" and n.get("opcode") == "=":
        lhs, rhs = kids(n)
        l = strip(lhs) if lhs.get("kind") == "ParenExpr" else lhs
        if l.get("kind") == "ArraySubscriptExpr":
            v = const(rhs)
            if v is None:
                raise NoFit("byte store of a non-constant")
            return ".setByte (%s) %d" % (pad_index(l), v % 256)
        if l.get("kind") == "UnaryOperator" and l.get("opcode") == "*":
            p = kids(l)[0]
            pt = strip_paren(p)
            if pt.get("kind") != "CStyleCastExpr" or ctype(pt).replace(" ", "") not in ("uint64_t*", "unsignedlong*"):
                raise NoFit("store through " + ctype(pt))
            if width(l) != (64, False):
                raise NoFit("store width")
            return ".store64 (%s) (%s)" % (pad_index(kids(pt)[0]), expr(rhs))
        raise NoFit("assignment target")
    if k == "CompoundAssignOperator" and n.get("opcode") == "+=":
        lhs, rhs = kids(n)
        if strip(lhs).get("referencedDecl", {}).get("name") != "i":
            raise NoFit("+= target")
        return ".addI (%s)" % expr(rhs)
    if k == "ReturnStmt":
        return ".ret (%s)" % expr(kids(n)[0])
    if k == "NullStmt":
        return None
    raise NoFit("statement " + str(k))


def strip_paren(n):
    while n.get("kind") == "ParenExpr":
        n = kids(n)[0]
    return n


def wrap32(n):
    """initialiser of a uint32_t: the value stored is the expression converted to 32 bits"""
    e = expr(n)
    bits, sg = width(n)
    return e if bits == 32 and not sg else "(.trunc 32 (%s))" % e


def translate(repo, rel):
    docs = clang_ast(repo, rel)
    body = None
    for d in docs:
        if d.get("kind") == "FunctionDecl" and d.get("name") == "hash_pad":
            cs = [c for c in kids(d) if c.get("kind") == "CompoundStmt"]
            if cs:
                body = cs[0]
    if body is None:
        return None
    out = []
    for s in kids(body):
        try:
            t = stmt(s)
            if t:
                out.append(t)
        except NoFit as e:
            out.append('.unsupported "%s"' % str(e).replace('"', "'")[:80])
        except Exception as e:       # malformed node: never skip silently
            out.append('.unsupported "translator: %s"' % type(e).__name__)
    return out


def ctx_files(repo):
    fs = []
    for p in sorted(glob.glob(os.path.join(repo, "*_mb", "*_ctx_*.c"))):
        if re.search(r"\bhash_pad\s*\(", open(p).read()):
            fs.append(os.path.relpath(p, repo))
    return fs


def main(argv=None):
    argv = argv or sys.argv[1:]
    repo, lean = argv[0], argv[1]
    rows = []
    for rel in ctx_files(repo):
        alg = os.path.basename(rel).split("_ctx_")[0]
        prog = translate(repo, rel)
        if prog is None:
            prog = ['.unsupported "no definition of hash_pad"']
        rows.append((rel, alg, prog))
    out = ["import IsalVerif.Impl.PadC",
           "/-! GENERATED by tools/gen_hashpad.py from the current tree: `hash_pad` of every ctx file. Do not edit. -/",
           "namespace IsalVerif.Gen.HashPad", "open IsalVerif.PadC", ""]
    names = []
    for k, (rel, alg, prog) in enumerate(rows):
        nm = "p%d" % k
        names.append(nm)
        out.append("def %s : Src := { file := \"%s\", alg := \"%s\", prog := [\n  %s] }" % (nm, rel, alg, ",\n  ".join(prog)))
    out.append("")
    out.append("def all : List Src := [%s]" % ", ".join(names))
    out.append("")
    out.append("end IsalVerif.Gen.HashPad")
    dst = os.path.join(lean, "IsalVerif", "Gen", "HashPad.lean")
    txt = "\n".join(out) + "\n"
    if not os.path.exists(dst) or open(dst).read() != txt:
        open(dst, "w").write(txt)
    uns = sum(1 for _, _, p in rows for s in p if s.startswith(".unsupported"))
    print("hash_pad: %d files, %d unsupported statements -> %s" % (len(rows), uns, dst))
    return rows


if __name__ == "__main__":
    main()
