#include <stdio.h>
#include <string.h>
#include <stdlib.h>
#include "isal_crypto_api.h"
#include "sha256_mb.h"
extern unsigned verif_cfg[5]; extern unsigned verif_virtual;
int main(void){
  verif_virtual = 1; memset(verif_cfg,0,sizeof verif_cfg); /* CPU with no SSE4.1: dispatch binds the base family */
  ISAL_SHA256_HASH_CTX_MGR *mgr; posix_memalign((void**)&mgr,64,sizeof *mgr);
  ISAL_SHA256_HASH_CTX ctx, *out; isal_hash_ctx_init(&ctx);
  isal_sha256_ctx_mgr_init(mgr);
  int r1 = isal_sha256_ctx_mgr_submit(mgr,&ctx,&out,"abc",3,ISAL_HASH_FIRST);
  int r2 = isal_sha256_ctx_mgr_submit(mgr,&ctx,&out,"abc",3,8);           /* invalid flags: rejected */
  int r3 = isal_sha256_ctx_mgr_submit(mgr,&ctx,&out,"def",3,ISAL_HASH_UPDATE); /* valid */
  int r4 = isal_sha256_ctx_mgr_submit(mgr,&ctx,&out,"ghi",3,ISAL_HASH_LAST);   /* valid */
  printf("first=%d rejected=%d valid_update=%d valid_last=%d error_field=%d\n", r1,r2,r3,r4,(int)ctx.error);
  return (r3||r4) ? 1 : 0;
}
