/* Observation OUTSIDE the letter of C14 (which speaks of vector registers and dead stack only):
 * the Scrub checker reports that the XTS functions of the sse/avx families return with `rax` (and r11)
 * possibly key-dependent.  This program shows what rax holds: the low 64 bits of a multiple
 * E(k2,tweak) * alpha^j of the ENCRYPTED TWEAK (the scalar tweak-update code keeps the running tweak in rax:rbx;
 * rbx is restored from the stack, rax is not cleared - clear_scratch_gps_asm is not used by the XTS code).
 * verif_tramp returns the callee's rax.  Build + run: repro/run_xts.sh <build dir>
 */
#define _GNU_SOURCE
#include <stdio.h>
#include <stdint.h>
#include <string.h>
#include <stdlib.h>
#include <openssl/evp.h>
#include "../harness/tramp.h"

extern void _XTS_AES_128_enc_sse(void), _XTS_AES_128_enc_avx(void), _XTS_AES_128_dec_sse(void), _XTS_AES_128_dec_avx(void),
        _XTS_AES_128_enc_vaes(void), _XTS_AES_128_enc_expanded_key_sse(void);

static void ecb128(const uint8_t *key, const uint8_t *in, uint8_t *out)
{
        EVP_CIPHER_CTX *c = EVP_CIPHER_CTX_new();
        int l;
        EVP_EncryptInit_ex(c, EVP_aes_128_ecb(), NULL, key, NULL);
        EVP_CIPHER_CTX_set_padding(c, 0);
        EVP_EncryptUpdate(c, out, &l, in, 16);
        EVP_CIPHER_CTX_free(c);
}
static void mul_alpha(uint8_t *t)
{
        int carry = t[15] >> 7;
        for (int i = 15; i > 0; i--) t[i] = (uint8_t) ((t[i] << 1) | (t[i - 1] >> 7));
        t[0] = (uint8_t) (t[0] << 1);
        if (carry) t[0] ^= 0x87;
}

int main(void)
{
        setenv("VERIF_POISON", "7", 1);
        tramp_setup();
        static uint8_t in[1024] __attribute__((aligned(64))), out[1024] __attribute__((aligned(64)));
        uint8_t k1[16], k2[16], tw[16], et[16];
        for (int i = 0; i < 16; i++) { k1[i] = (uint8_t) (i * 7 + 1); k2[i] = (uint8_t) (i * 13 + 5); tw[i] = (uint8_t) (i + 0x40); }
        for (size_t i = 0; i < sizeof in; i++) in[i] = (uint8_t) (i * 31);
        struct { const char *n; void *f; } fn[] = { { "_XTS_AES_128_enc_sse", _XTS_AES_128_enc_sse }, { "_XTS_AES_128_enc_avx", _XTS_AES_128_enc_avx },
                { "_XTS_AES_128_dec_sse", _XTS_AES_128_dec_sse }, { "_XTS_AES_128_dec_avx", _XTS_AES_128_dec_avx },
                { "_XTS_AES_128_enc_vaes", _XTS_AES_128_enc_vaes } };
        int found = 0;
        for (unsigned f = 0; f < sizeof fn / sizeof fn[0]; f++)
                for (size_t len = 16; len <= 512; len += 16) {
                        uint64_t rax = TCALL(fn[f].f, A_(k2), A_(k1), A_(tw), len, A_(in), A_(out));
                        ecb128(k2, tw, et);
                        for (int j = 0; j < 64; j++) {
                                uint64_t lo;
                                memcpy(&lo, et, 8);
                                if (lo == rax) {
                                        if (found < 12) printf("OBSERVATION %s len=%zu: rax after return = low 64 bits of E(k2,tweak)*alpha^%d = %016llx\n", fn[f].n, len, j, (unsigned long long) rax);
                                        found++;
                                        break;
                                }
                                mul_alpha(et);
                        }
                }
        printf("XTS GPR observation: %d calls returned with half of an encrypted-tweak multiple in rax\n", found);
        return 0;
}
