#!/bin/sh
# usage: repro/run_xts.sh <build dir>
set -e
B=${1:-$(VERIF_CACHE=${VERIF_CACHE:-/tmp/agent_c14_cache} python3 "$(dirname "$0")/../tools/build_repo.py" default | tail -1)}
D=$(cd "$(dirname "$0")" && pwd)
nasm -f elf64 "$D/../harness/tramp.asm" -o "$B/tramp.o"
gcc -O1 -g -I "$B/src/include" -o "$B/xts_gpr_observation" "$D/xts_gpr_observation.c" "$B/tramp.o" "$B/isa-l_crypto.a" -lcrypto
"$B/xts_gpr_observation"
