#!/bin/sh
# usage: repro/run.sh <build dir>   (the directory printed by `python3 tools/build_repo.py default`)
set -e
B=${1:-$(VERIF_CACHE=${VERIF_CACHE:-/tmp/agent_c14_cache} python3 "$(dirname "$0")/../tools/build_repo.py" default | tail -1)}
D=$(cd "$(dirname "$0")" && pwd)
nasm -f elf64 "$D/../harness/tramp.asm" -o "$B/tramp.o"
gcc -O1 -g -I "$B/src/include" -o "$B/false_alarms" "$D/false_alarms.c" "$B/tramp.o" "$B/isa-l_crypto.a" -lcrypto
"$B/false_alarms"
