/* C14, dynamic cross-check of the functions the static Scrub checker REJECTS on the current tree.
 *
 * The checker rejects (a) the GCM decrypt one-shot / update functions of the avx_gen2 and avx_gen4 families
 * ("stack bytes possibly holding key-dependent data: [frame0+0,+112)": the TMP2..TMP8 spill slots) and
 * (b) _aes_gcm_pre_{128,256} (the callee _aes_keyexp_* writes the decryption schedule into a local array,
 * which is cleared by a byte loop the abstract domain cannot summarise).  Both are classified as IMPRECISION
 * of the static analysis, not as leaks.  This program supports the classification: it calls every one of
 * these functions through the capture trampoline (zmm0-31, k0-7 and 64 KiB of dead stack captured right after
 * the return) for every length class and scans the capture for the raw key, every round key of the encryption
 * and decryption schedules, the GHASH key (both byte orders) and every stored hash-key power.
 * Expected output: "hits=0".   Build + run: see repro/run.sh.
 */
#define _GNU_SOURCE
#include <stdio.h>
#include <stdint.h>
#include <stddef.h>
#include <string.h>
#include <stdlib.h>
#include "aes_gcm.h"
#include "aes_keyexp.h"
#include "../harness/tramp.h"
#include "../harness/sens.h"

#define DECL(fam) \
        extern void _aes_gcm_dec_128_##fam(void), _aes_gcm_dec_256_##fam(void), _aes_gcm_dec_128_update_##fam(void), \
                _aes_gcm_dec_256_update_##fam(void), _aes_gcm_dec_128_##fam##_nt(void), _aes_gcm_dec_256_##fam##_nt(void), \
                _aes_gcm_dec_128_update_##fam##_nt(void), _aes_gcm_dec_256_update_##fam##_nt(void), \
                _aes_gcm_init_128_##fam(void), _aes_gcm_init_256_##fam(void), _aes_gcm_precomp_128_##fam(void), \
                _aes_gcm_precomp_256_##fam(void);
DECL(avx_gen2)
DECL(avx_gen4)
extern void _aes_gcm_pre_128(const void *, struct isal_gcm_key_data *), _aes_gcm_pre_256(const void *, struct isal_gcm_key_data *);
extern void _aes_keyexp_128(const uint8_t *, uint8_t *, uint8_t *), _aes_keyexp_256(const uint8_t *, uint8_t *, uint8_t *);

static uint64_t rs = 0x1234567887654321ULL;
static uint8_t rnd8(void) { rs ^= rs >> 12; rs ^= rs << 25; rs ^= rs >> 27; return (uint8_t) ((rs * 0x2545F4914F6CDD1DULL) >> 56); }

/* self-test of the scanner: a function that leaves the key in its dead frame must be reported */
static void __attribute__((noinline)) leaky(const uint8_t *key)
{
        volatile uint8_t tmp[64];
        for (int i = 0; i < 32; i++) tmp[i + 16] = key[i];
}

struct fam { const char *name; void *pre128, *pre256, *init128, *init256, *dec128, *dec256, *upd128, *upd256, *dec128nt, *dec256nt, *upd128nt, *upd256nt; };

int main(void)
{
        setenv("VERIF_CAPTURE", "1", 1);
        tramp_setup();
        sens_out = stdout;
        static struct isal_gcm_key_data kd __attribute__((aligned(64)));
        static struct isal_gcm_context_data ctx __attribute__((aligned(64)));
        static uint8_t in[4096 + 64] __attribute__((aligned(64))), out[4096 + 64] __attribute__((aligned(64)));
        uint8_t key[32], iv[12], aad[20], tag[16], ek[240], dk[240];
        struct fam fams[] = {
                { "avx_gen2", _aes_gcm_precomp_128_avx_gen2, _aes_gcm_precomp_256_avx_gen2, _aes_gcm_init_128_avx_gen2, _aes_gcm_init_256_avx_gen2,
                  _aes_gcm_dec_128_avx_gen2, _aes_gcm_dec_256_avx_gen2, _aes_gcm_dec_128_update_avx_gen2, _aes_gcm_dec_256_update_avx_gen2,
                  _aes_gcm_dec_128_avx_gen2_nt, _aes_gcm_dec_256_avx_gen2_nt, _aes_gcm_dec_128_update_avx_gen2_nt, _aes_gcm_dec_256_update_avx_gen2_nt },
                { "avx_gen4", _aes_gcm_precomp_128_avx_gen4, _aes_gcm_precomp_256_avx_gen4, _aes_gcm_init_128_avx_gen4, _aes_gcm_init_256_avx_gen4,
                  _aes_gcm_dec_128_avx_gen4, _aes_gcm_dec_256_avx_gen4, _aes_gcm_dec_128_update_avx_gen4, _aes_gcm_dec_256_update_avx_gen4,
                  _aes_gcm_dec_128_avx_gen4_nt, _aes_gcm_dec_256_avx_gen4_nt, _aes_gcm_dec_128_update_avx_gen4_nt, _aes_gcm_dec_256_update_avx_gen4_nt },
        };
        long calls = 0;
        for (int i = 0; i < 32; i++) key[i] = rnd8();
        sens_clear();
        sens_add_range(key, 32, "raw key");
        sens_out = NULL;
        TCALL(leaky, A_(key));
        SCAN("selftest");
        printf("scanner self-test (a function that leaves the key in its dead frame): %s\n", sens_hits ? "reported" : "NOT reported");
        if (!sens_hits) return 2;
        sens_hits = 0; sens_scans = 0;
        sens_out = stdout;
        for (int trial = 0; trial < 3; trial++)
                for (int bits = 128; bits <= 256; bits += 128) {
                        for (int i = 0; i < 32; i++) key[i] = rnd8();
                        for (int i = 0; i < 12; i++) iv[i] = rnd8();
                        for (int i = 0; i < 20; i++) aad[i] = rnd8();
                        for (size_t i = 0; i < sizeof in; i++) in[i] = rnd8();
                        /* reference schedules (for the scan only) */
                        if (bits == 128) _aes_keyexp_128(key, ek, dk); else _aes_keyexp_256(key, ek, dk);
                        /* (b) _aes_gcm_pre_*: key expansion into a local array + precompute */
                        memset(&kd, 0, sizeof kd);
                        sens_set_gcm(key, bits, &kd, dk);
                        sens_add_range(ek, 16 * (bits == 128 ? 11 : 15), "encryption round key");
                        TCALL(bits == 128 ? (void *) _aes_gcm_pre_128 : (void *) _aes_gcm_pre_256, A_(key), A_(&kd));
                        sens_add_hkeys(&kd);
                        SCAN(bits == 128 ? "_aes_gcm_pre_128" : "_aes_gcm_pre_256");
                        calls++;
                        for (unsigned f = 0; f < 2; f++) {
                                struct fam *F = &fams[f];
                                /* family-specific key data (hash-key layout differs) */
                                memset(&kd, 0, sizeof kd);
                                memcpy(kd.expanded_keys, ek, 16 * (bits == 128 ? 11 : 15));
                                ((void (*)(struct isal_gcm_key_data *)) (bits == 128 ? F->pre128 : F->pre256))(&kd);
                                sens_set_gcm(key, bits, &kd, dk);
                                sens_add_hkeys(&kd);
                                for (size_t len = 0; len <= 4096; len = len < 300 ? len + 1 : len + 379) {
                                        char what[96];
                                        /* one-shot */
                                        snprintf(what, sizeof what, "_aes_gcm_dec_%d_%s len=%zu", bits, F->name, len);
                                        TCALL(bits == 128 ? F->dec128 : F->dec256, A_(&kd), A_(&ctx), A_(out), A_(in), len, A_(iv), A_(aad), 20, A_(tag), 16);
                                        SCAN(what); calls++;
                                        if (len % 16 == 0) {
                                                snprintf(what, sizeof what, "_aes_gcm_dec_%d_%s_nt len=%zu", bits, F->name, len);
                                                TCALL(bits == 128 ? F->dec128nt : F->dec256nt, A_(&kd), A_(&ctx), A_(out), A_(in), len, A_(iv), A_(aad), 20, A_(tag), 16);
                                                SCAN(what); calls++;
                                        }
                                        /* init + two updates (split so that a partial block is pending for the second one) */
                                        size_t a = len / 3;
                                        ((void (*)(struct isal_gcm_key_data *, struct isal_gcm_context_data *, uint8_t *, const uint8_t *, uint64_t))
                                         (bits == 128 ? F->init128 : F->init256))(&kd, &ctx, iv, aad, 20);
                                        snprintf(what, sizeof what, "_aes_gcm_dec_%d_update_%s len=%zu+%zu", bits, F->name, a, len - a);
                                        TCALL(bits == 128 ? F->upd128 : F->upd256, A_(&kd), A_(&ctx), A_(out), A_(in), a);
                                        SCAN(what); calls++;
                                        TCALL(bits == 128 ? F->upd128 : F->upd256, A_(&kd), A_(&ctx), A_(out + a), A_(in + a), len - a);
                                        SCAN(what); calls++;
                                        if (len % 16 == 0) {
                                                ((void (*)(struct isal_gcm_key_data *, struct isal_gcm_context_data *, uint8_t *, const uint8_t *, uint64_t))
                                                 (bits == 128 ? F->init128 : F->init256))(&kd, &ctx, iv, aad, 20);
                                                snprintf(what, sizeof what, "_aes_gcm_dec_%d_update_%s_nt len=%zu", bits, F->name, len);
                                                TCALL(bits == 128 ? F->upd128nt : F->upd256nt, A_(&kd), A_(&ctx), A_(out), A_(in), len);
                                                SCAN(what); calls++;
                                        }
                                }
                        }
                }
        printf("C14 false-alarm cross-check: calls=%ld scans=%ld sensitive values per scan up to %d hits=%ld\n", calls, sens_scans, sens_n, sens_hits);
        return sens_hits ? 1 : 0;
}
